import XrlC13.Lemmas.StructureFactor
import Mathlib.Algebra.BigOperators.Group.List.Basic
/-!
# Algebra of the explicit structure-factor sum (specification side, over ℝ)
-/
namespace Xrl
namespace C13
open Real

/-- complex conjugate of a pair -/
def conj (p : ℝ × ℝ) : ℝ × ℝ := (p.1, -p.2)

/-- the explicit sum as `F + Σ summand` -/
theorem sumFrom_eq_sum (i j k : Int) (fA : Int → ℝ × ℝ) :
    ∀ (atoms : List (Atom ℝ)) (F : ℝ × ℝ),
      Spec.sumFrom i j k fA atoms F = F + (atoms.map (Spec.summand i j k fA)).sum := by
  intro atoms
  induction atoms with
  | nil => intro F; simp [Spec.sumFrom]
  | cons atom rest ih =>
    intro F
    rw [Spec.sumFrom, ih, List.map_cons, List.sum_cons, ← add_assoc]
    rfl

theorem sumFrom_zero (i j k : Int) (fA : Int → ℝ × ℝ) (atoms : List (Atom ℝ)) :
    Spec.sumFrom i j k fA atoms (0, 0) = (atoms.map (Spec.summand i j k fA)).sum := by
  rw [sumFrom_eq_sum, Prod.mk_zero_zero, zero_add]

theorem summand_add (i j k : Int) (fA gA : Int → ℝ × ℝ) (atom : Atom ℝ) :
    Spec.summand i j k (fun Z => fA Z + gA Z) atom = Spec.summand i j k fA atom + Spec.summand i j k gA atom := by
  unfold Spec.summand
  ext <;> simp <;> ring

/-- the sum is additive in the atomic factors -/
theorem sumFrom_add (i j k : Int) (fA gA : Int → ℝ × ℝ) (atoms : List (Atom ℝ)) :
    Spec.sumFrom i j k (fun Z => fA Z + gA Z) atoms (0, 0) =
      Spec.sumFrom i j k fA atoms (0, 0) + Spec.sumFrom i j k gA atoms (0, 0) := by
  simp only [sumFrom_zero]
  induction atoms with
  | nil => simp
  | cons atom rest ih =>
    simp only [List.map_cons, List.sum_cons, ih, summand_add]
    abel

theorem phase_neg (i j k : Int) (atom : Atom ℝ) : Spec.phase (-i) (-j) (-k) atom = -Spec.phase i j k atom := by
  unfold Spec.phase; simp only [xofInt]; push_cast; ring

theorem conj_add (p q : ℝ × ℝ) : conj (p + q) = conj p + conj q := by
  unfold conj; ext <;> simp; ring

theorem summand_friedel (i j k : Int) (fA : Int → ℝ × ℝ) (h : ∀ Z, (fA Z).2 = 0) (atom : Atom ℝ) :
    Spec.summand (-i) (-j) (-k) fA atom = conj (Spec.summand i j k fA atom) := by
  unfold Spec.summand conj
  simp only [phase_neg, xcos, xsin, Real.cos_neg, Real.sin_neg, h]
  ext <;> simp

/-- Friedel's law for the sum: without an imaginary part of the atomic factors, `F(−h) = conj F(h)` -/
theorem sumFrom_friedel (i j k : Int) (fA : Int → ℝ × ℝ) (h : ∀ Z, (fA Z).2 = 0) (atoms : List (Atom ℝ)) :
    Spec.sumFrom (-i) (-j) (-k) fA atoms (0, 0) = conj (Spec.sumFrom i j k fA atoms (0, 0)) := by
  simp only [sumFrom_zero]
  induction atoms with
  | nil => simp [conj, Prod.zero_eq_mk]
  | cons atom rest ih =>
    simp only [List.map_cons, List.sum_cons, ih, summand_friedel i j k fA h, conj_add]

theorem summand_000 (fA : Int → ℝ × ℝ) (atom : Atom ℝ) :
    Spec.summand 0 0 0 fA atom = (atom.fraction * (fA atom.Zatom).1, atom.fraction * (fA atom.Zatom).2) := by
  unfold Spec.summand Spec.phase
  simp

/-- the (0,0,0) reflection: all phases are 1 -/
theorem sumFrom_000 (fA : Int → ℝ × ℝ) (atoms : List (Atom ℝ)) :
    Spec.sumFrom 0 0 0 fA atoms (0, 0) =
      ((atoms.map (fun atom => atom.fraction * (fA atom.Zatom).1)).sum,
       (atoms.map (fun atom => atom.fraction * (fA atom.Zatom).2)).sum) := by
  simp only [sumFrom_zero]
  induction atoms with
  | nil => simp [Prod.zero_eq_mk]
  | cons atom rest ih =>
    simp only [List.map_cons, List.sum_cons, ih, summand_000]
    rfl

/-- the flagged factor splits into its three partial terms -/
theorem fAof_additive (F : Int → ℝ × ℝ × ℝ) (D : ℝ) {a b c : Int} (h : validFlags a b c) (Z : Int) :
    fAof F D a b c Z = fAof F D a 0 0 Z + fAof F D 0 b 0 Z + fAof F D 0 0 c Z := by
  obtain ⟨ha, hb, hc⟩ := h
  unfold fAof flagged
  rcases ha with rfl | rfl | rfl <;> rcases hb with rfl | rfl <;> rcases hc with rfl | rfl <;> ext <;> simp

theorem validFlags_a (a : Int) (h : a = 0 ∨ a = 1 ∨ a = 2) : validFlags a 0 0 := ⟨h, Or.inl rfl, Or.inl rfl⟩
theorem validFlags_b (b : Int) (h : b = 0 ∨ b = 2) : validFlags 0 b 0 := ⟨Or.inl rfl, h, Or.inl rfl⟩
theorem validFlags_c (c : Int) (h : c = 0 ∨ c = 2) : validFlags 0 0 c := ⟨Or.inl rfl, Or.inl rfl, h⟩

end C13
end Xrl
