import XrlC13.Lemmas.Real
import XrlC13.Lemmas.Quad
/-!
# What `Crystal_UnitCellVolume` and `Crystal_dSpacing` evaluate to over ℝ
-/
namespace Xrl
namespace C13
open Real

/-- the `int` products cannot overflow, or the repaired code computes them in `double` -/
def SafeMiller (v : Variant) (i j k : Int) : Prop := v.ovfFix = true ∨ smallMiller i j k

theorem twoIJ_ok (v : Variant) {i j : Int} (h : v.ovfFix = true ∨ (-32767 ≤ i ∧ i ≤ 32767 ∧ -32767 ≤ j ∧ j ≤ 32767)) :
    (twoIJ v i j : M ℝ) = .ok (2 * (i : ℝ) * (j : ℝ)) := by
  unfold twoIJ
  by_cases hv : v.ovfFix = true
  · simp [hv]
  · have hb := h.resolve_left hv
    have h1 : inI32 (2 * i) := by unfold inI32 INT_MIN INT_MAX; omega
    have h2 : inI32 (2 * i * j) := by
      unfold inI32 INT_MIN INT_MAX
      have ha : -32767 * 32767 ≤ i * j ∧ i * j ≤ 32767 * 32767 := by
        constructor <;> nlinarith [hb.1, hb.2.1, hb.2.2.1, hb.2.2.2]
      constructor <;> nlinarith [ha.1, ha.2]
    simp [hv, chkI, h1, h2]

/-- the quadratic form under the square root of :468-474 -/
noncomputable def Xq (cc : Crystal ℝ) (i j k : Int) : ℝ :=
  pow2 ((i : ℝ) * sind cc.alpha / cc.a) + pow2 ((j : ℝ) * sind cc.beta / cc.b) + pow2 ((k : ℝ) * sind cc.gamma / cc.c) +
    2 * (i : ℝ) * (j : ℝ) * (cosd cc.alpha * cosd cc.beta - cosd cc.gamma) / (cc.a * cc.b) +
    2 * (i : ℝ) * (k : ℝ) * (cosd cc.alpha * cosd cc.gamma - cosd cc.beta) / (cc.a * cc.c) +
    2 * (j : ℝ) * (k : ℝ) * (cosd cc.beta * cosd cc.gamma - cosd cc.alpha) / (cc.b * cc.c)

/-- the value `Crystal_dSpacing` returns when nothing goes wrong -/
noncomputable def dval (cc : Crystal ℝ) (i j k : Int) : ℝ :=
  cc.volume / (cc.a * cc.b * cc.c) * Real.sqrt (1 / Xq cc i j k)

/-- complete evaluation of `Crystal_dSpacing` on a crystal record, for every cell (degenerate or not) -/
theorem dSpacing_eval (v : Variant) (cc : Crystal ℝ) {i j k : Int} (error : Slot) (hs : SafeMiller v i j k)
    (h0 : ¬ (i = 0 ∧ j = 0 ∧ k = 0)) :
    Crystal_dSpacing v (some cc) i j k error =
      if cc.a = 0 ∨ cc.b = 0 ∨ cc.c = 0 ∨ Xq cc i j k = 0 then .error (.nf "div0")
      else if 1 / Xq cc i j k < 0 then .error (.nf "sqrt")
      else .ok (dval cc i j k, error) := by
  have hij : (twoIJ v i j : M ℝ) = .ok (2 * (i : ℝ) * (j : ℝ)) :=
    twoIJ_ok v (hs.imp id (fun h => ⟨h.1, h.2.1, h.2.2.1, h.2.2.2.1⟩))
  have hik : (twoIJ v i k : M ℝ) = .ok (2 * (i : ℝ) * (k : ℝ)) :=
    twoIJ_ok v (hs.imp id (fun h => ⟨h.1, h.2.1, h.2.2.2.2.1, h.2.2.2.2.2⟩))
  have hjk : (twoIJ v j k : M ℝ) = .ok (2 * (j : ℝ) * (k : ℝ)) :=
    twoIJ_ok v (hs.imp id (fun h => ⟨h.2.2.1, h.2.2.2.1, h.2.2.2.2.1, h.2.2.2.2.2⟩))
  unfold Crystal_dSpacing
  simp only [h0, if_false, hij, hik, hjk, ddiv, dsqrt, deq_real, lit0, lit1, xofInt, bind_ok, pure_eq_ok, throw_eq_error]
  by_cases ha : cc.a = 0
  · simp [ha]
  by_cases hb : cc.b = 0
  · simp [ha, hb]
  by_cases hc : cc.c = 0
  · simp [ha, hb, hc]
  have habc : cc.a * cc.b * cc.c ≠ 0 := mul_ne_zero (mul_ne_zero ha hb) hc
  have hab : cc.a * cc.b ≠ 0 := mul_ne_zero ha hb
  have hac : cc.a * cc.c ≠ 0 := mul_ne_zero ha hc
  have hbc : cc.b * cc.c ≠ 0 := mul_ne_zero hb hc
  simp only [ha, hb, hc, habc, hab, hac, hbc, if_false, bind_ok, false_or]
  have hX : pow2 ((i : ℝ) * sind cc.alpha / cc.a) + pow2 ((j : ℝ) * sind cc.beta / cc.b) + pow2 ((k : ℝ) * sind cc.gamma / cc.c) +
      2 * (i : ℝ) * (j : ℝ) * (cosd cc.alpha * cosd cc.beta - cosd cc.gamma) / (cc.a * cc.b) +
      2 * (i : ℝ) * (k : ℝ) * (cosd cc.alpha * cosd cc.gamma - cosd cc.beta) / (cc.a * cc.c) +
      2 * (j : ℝ) * (k : ℝ) * (cosd cc.beta * cosd cc.gamma - cosd cc.alpha) / (cc.b * cc.c) = Xq cc i j k := rfl
  rw [hX]
  by_cases hx : Xq cc i j k = 0
  · simp [hx]
  simp only [hx, if_false, bind_ok]
  by_cases hn : 1 / Xq cc i j k < 0
  · simp only [hn, if_true, bind_error]
  · simp only [hn, if_false, bind_ok]; rfl

/-! ## the quadratic form -/

theorem detC_real (cc : Crystal ℝ) :
    detC cc = 1 - cosd cc.alpha * cosd cc.alpha - cosd cc.beta * cosd cc.beta - cosd cc.gamma * cosd cc.gamma +
      2 * cosd cc.alpha * cosd cc.beta * cosd cc.gamma := by
  unfold detC pow2; simp only [lit1, lit2]

/-- `Xq` in cosines only: `uᵀ adj(C) u` with `u = (i/a, j/b, k/c)` -/
theorem Xq_cos (cc : Crystal ℝ) (i j k : Int) :
    Xq cc i j k =
      (1 - cosd cc.alpha * cosd cc.alpha) * ((i : ℝ) / cc.a) * ((i : ℝ) / cc.a) +
      (1 - cosd cc.beta * cosd cc.beta) * ((j : ℝ) / cc.b) * ((j : ℝ) / cc.b) +
      (1 - cosd cc.gamma * cosd cc.gamma) * ((k : ℝ) / cc.c) * ((k : ℝ) / cc.c) +
      2 * (cosd cc.alpha * cosd cc.beta - cosd cc.gamma) * ((i : ℝ) / cc.a) * ((j : ℝ) / cc.b) +
      2 * (cosd cc.alpha * cosd cc.gamma - cosd cc.beta) * ((i : ℝ) / cc.a) * ((k : ℝ) / cc.c) +
      2 * (cosd cc.beta * cosd cc.gamma - cosd cc.alpha) * ((j : ℝ) / cc.b) * ((k : ℝ) / cc.c) := by
  unfold Xq pow2
  rw [← sind_sq, ← sind_sq, ← sind_sq]
  simp only [div_eq_mul_inv, mul_inv]
  ring

theorem Xq_neg (cc : Crystal ℝ) (i j k : Int) : Xq cc (-i) (-j) (-k) = Xq cc i j k := by
  unfold Xq pow2; push_cast; ring

theorem Xq_scale (cc : Crystal ℝ) (n i j k : Int) : Xq cc (n * i) (n * j) (n * k) = (n : ℝ) ^ 2 * Xq cc i j k := by
  unfold Xq pow2; push_cast; ring

/-- a cell the geometry speaks about: positive edges and positive Gram determinant (no condition on the stored volume) -/
def goodCell (cc : Crystal ℝ) : Prop := 0 < cc.a ∧ 0 < cc.b ∧ 0 < cc.c ∧ 0 < detC cc

theorem validCell.good {cc : Crystal ℝ} (hv : validCell cc) : goodCell cc := by
  obtain ⟨ha, hb, hc, hD, _⟩ := hv
  simp only [lit0] at ha hb hc hD
  exact ⟨ha, hb, hc, hD⟩

theorem validCell.vol {cc : Crystal ℝ} (hv : validCell cc) : 0 < cc.volume := by
  have := hv.2.2.2.2; simpa using this

theorem Xq_pos' {cc : Crystal ℝ} (hg : goodCell cc) {i j k : Int} (h0 : ¬ (i = 0 ∧ j = 0 ∧ k = 0)) : 0 < Xq cc i j k := by
  obtain ⟨ha, hb, hc, hD⟩ := hg
  rw [detC_real] at hD
  rw [Xq_cos]
  apply quad_pos _ _ _ _ _ _ (cosd_le_one _) hD
  by_contra hcon
  simp only [not_or, not_not] at hcon
  apply h0
  have h1 := hcon.1; have h2 := hcon.2.1; have h3 := hcon.2.2
  rw [div_eq_zero_iff] at h1 h2 h3
  refine ⟨?_, ?_, ?_⟩
  · exact_mod_cast h1.resolve_right ha.ne'
  · exact_mod_cast h2.resolve_right hb.ne'
  · exact_mod_cast h3.resolve_right hc.ne'

theorem Xq_pos {cc : Crystal ℝ} (hv : validCell cc) {i j k : Int} (h0 : ¬ (i = 0 ∧ j = 0 ∧ k = 0)) : 0 < Xq cc i j k :=
  Xq_pos' hv.good h0

/-- on a good cell the d-spacing is the value `dval` -/
theorem dSpacing_good (v : Variant) {cc : Crystal ℝ} (hg : goodCell cc) {i j k : Int} (error : Slot)
    (hs : SafeMiller v i j k) (h0 : ¬ (i = 0 ∧ j = 0 ∧ k = 0)) :
    Crystal_dSpacing v (some cc) i j k error = .ok (dval cc i j k, error) := by
  rw [dSpacing_eval v cc error hs h0]
  have hx := Xq_pos' hg h0
  obtain ⟨ha, hb, hc, _⟩ := hg
  have h1 : ¬ (cc.a = 0 ∨ cc.b = 0 ∨ cc.c = 0 ∨ Xq cc i j k = 0) := by
    simp [ha.ne', hb.ne', hc.ne', hx.ne']
  have h2 : ¬ (1 / Xq cc i j k < 0) := not_lt.mpr (by positivity)
  rw [if_neg h1, if_neg h2]

theorem dSpacing_valid (v : Variant) {cc : Crystal ℝ} (hv : validCell cc) {i j k : Int} (error : Slot)
    (hs : SafeMiller v i j k) (h0 : ¬ (i = 0 ∧ j = 0 ∧ k = 0)) :
    Crystal_dSpacing v (some cc) i j k error = .ok (dval cc i j k, error) :=
  dSpacing_good v hv.good error hs h0

theorem dval_pos {cc : Crystal ℝ} (hv : validCell cc) {i j k : Int} (h0 : ¬ (i = 0 ∧ j = 0 ∧ k = 0)) :
    0 < dval cc i j k := by
  have hx := Xq_pos hv h0
  obtain ⟨ha, hb, hc, _, hvol⟩ := hv
  simp only [lit0] at ha hb hc hvol
  unfold dval
  have : 0 < Real.sqrt (1 / Xq cc i j k) := Real.sqrt_pos.mpr (by positivity)
  positivity

/-! ## inversion and scaling of the Miller indices -/

theorem SafeMiller.neg {v : Variant} {i j k : Int} (h : SafeMiller v i j k) : SafeMiller v (-i) (-j) (-k) := by
  rcases h with h | h
  · exact Or.inl h
  · right; unfold smallMiller at *; omega

theorem dval_neg (cc : Crystal ℝ) (i j k : Int) : dval cc (-i) (-j) (-k) = dval cc i j k := by
  unfold dval; rw [Xq_neg]

theorem dSpacing_inversion (v : Variant) (cr : Option (Crystal ℝ)) {i j k : Int} (hs : SafeMiller v i j k) (error : Slot) :
    Crystal_dSpacing v cr (-i) (-j) (-k) error = Crystal_dSpacing v cr i j k error := by
  cases cr with
  | none => rfl
  | some cc =>
    by_cases h0 : i = 0 ∧ j = 0 ∧ k = 0
    · obtain ⟨rfl, rfl, rfl⟩ := h0; rfl
    · have h0' : ¬ (-i = 0 ∧ -j = 0 ∧ -k = 0) := by simpa [neg_eq_zero] using h0
      rw [dSpacing_eval v cc error hs h0, dSpacing_eval v cc error hs.neg h0', Xq_neg, dval_neg]

theorem dval_scale (cc : Crystal ℝ) {n : Int} (hn : n ≠ 0) (i j k : Int) :
    dval cc (n * i) (n * j) (n * k) = dval cc i j k / |(n : ℝ)| := by
  unfold dval
  rw [Xq_scale]
  have hn' : (n : ℝ) ≠ 0 := by exact_mod_cast hn
  have h2 : (0 : ℝ) ≤ (n : ℝ) ^ 2 := sq_nonneg _
  have : 1 / ((n : ℝ) ^ 2 * Xq cc i j k) = 1 / Xq cc i j k / (n : ℝ) ^ 2 := by
    rw [div_div, mul_comm]
  rw [this, Real.sqrt_div' _ h2, Real.sqrt_sq_eq_abs]
  ring

theorem dSpacing_scale (v : Variant) (cr : Option (Crystal ℝ)) {n : Int} (hn : n ≠ 0) {i j k : Int}
    (hs : SafeMiller v i j k) (hsn : SafeMiller v (n * i) (n * j) (n * k)) (error : Slot) :
    Crystal_dSpacing v cr (n * i) (n * j) (n * k) error =
      (Crystal_dSpacing v cr i j k error).map (fun p => (p.1 / |(n : ℝ)|, p.2)) := by
  have hn' : (n : ℝ) ≠ 0 := by exact_mod_cast hn
  cases cr with
  | none =>
    unfold Crystal_dSpacing
    cases error <;> simp [setErr, Except.map]
  | some cc =>
    by_cases h0 : i = 0 ∧ j = 0 ∧ k = 0
    · obtain ⟨rfl, rfl, rfl⟩ := h0
      unfold Crystal_dSpacing
      cases error <;> simp [setErr, Except.map]
    · have h0' : ¬ (n * i = 0 ∧ n * j = 0 ∧ n * k = 0) := by
        intro h; apply h0
        exact ⟨(mul_eq_zero.mp h.1).resolve_left hn, (mul_eq_zero.mp h.2.1).resolve_left hn, (mul_eq_zero.mp h.2.2).resolve_left hn⟩
      rw [dSpacing_eval v cc error hs h0, dSpacing_eval v cc error hsn h0', Xq_scale, dval_scale cc hn]
      have hsq : (0 : ℝ) < (n : ℝ) ^ 2 := by positivity
      have e1 : ((n : ℝ) ^ 2 * Xq cc i j k = 0) ↔ Xq cc i j k = 0 := by
        constructor
        · intro h; exact (mul_eq_zero.mp h).resolve_left hsq.ne'
        · intro h; rw [h, mul_zero]
      have e2 : (1 / ((n : ℝ) ^ 2 * Xq cc i j k) < 0) ↔ (1 / Xq cc i j k < 0) := by
        rw [one_div_neg, one_div_neg]
        constructor
        · intro h; by_contra hc; exact absurd h (not_lt.mpr (mul_nonneg hsq.le (not_lt.mp hc)))
        · intro h; exact mul_neg_of_pos_of_neg hsq h
      simp only [e1, e2]
      split_ifs <;> rfl

end C13
end Xrl
