import XrlC13.Lemmas.Real
import XrlC13.Lemmas.Quad
/-!
# What `Crystal_UnitCellVolume` and `Crystal_dSpacing` evaluate to over ℝ
-/
namespace Xrl
namespace C13
open Real

/-- the `int` products cannot overflow, or the repaired code computes them in `double` -/
def SafeMiller (v : Variant) (i j k : Int) : Prop := v.ovfFix = true ∨ smallMiller i j k

theorem twoIJ_ok (v : Variant) {i j : Int} (h : v.ovfFix = true ∨ (-32767 ≤ i ∧ i ≤ 32767 ∧ -32767 ≤ j ∧ j ≤ 32767)) :
    (twoIJ v i j : M ℝ) = .ok (2 * (i : ℝ) * (j : ℝ)) := by
  unfold twoIJ
  by_cases hv : v.ovfFix = true
  · simp [hv]
  · have hb := h.resolve_left hv
    have h1 : inI32 (2 * i) := by unfold inI32 INT_MIN INT_MAX; omega
    have h2 : inI32 (2 * i * j) := by
      unfold inI32 INT_MIN INT_MAX
      have ha : -32767 * 32767 ≤ i * j ∧ i * j ≤ 32767 * 32767 := by
        constructor <;> nlinarith [hb.1, hb.2.1, hb.2.2.1, hb.2.2.2]
      constructor <;> nlinarith [ha.1, ha.2]
    simp [hv, chkI, h1, h2]

/-- the quadratic form under the square root of :468-474 -/
noncomputable def Xq (cc : Crystal ℝ) (i j k : Int) : ℝ :=
  pow2 ((i : ℝ) * sind cc.alpha / cc.a) + pow2 ((j : ℝ) * sind cc.beta / cc.b) + pow2 ((k : ℝ) * sind cc.gamma / cc.c) +
    2 * (i : ℝ) * (j : ℝ) * (cosd cc.alpha * cosd cc.beta - cosd cc.gamma) / (cc.a * cc.b) +
    2 * (i : ℝ) * (k : ℝ) * (cosd cc.alpha * cosd cc.gamma - cosd cc.beta) / (cc.a * cc.c) +
    2 * (j : ℝ) * (k : ℝ) * (cosd cc.beta * cosd cc.gamma - cosd cc.alpha) / (cc.b * cc.c)

/-- the value `Crystal_dSpacing` returns when nothing goes wrong -/
noncomputable def dval (cc : Crystal ℝ) (i j k : Int) : ℝ :=
  cc.volume / (cc.a * cc.b * cc.c) * Real.sqrt (1 / Xq cc i j k)

/-- complete evaluation of `Crystal_dSpacing` on a crystal record, for every cell (degenerate or not) -/
theorem dSpacing_eval (v : Variant) (cc : Crystal ℝ) {i j k : Int} (error : Slot) (hs : SafeMiller v i j k)
    (h0 : ¬ (i = 0 ∧ j = 0 ∧ k = 0)) :
    Crystal_dSpacing v (some cc) i j k error =
      if cc.a = 0 ∨ cc.b = 0 ∨ cc.c = 0 ∨ Xq cc i j k = 0 then .error (.nf "div0")
      else if 1 / Xq cc i j k < 0 then .error (.nf "sqrt")
      else .ok (dval cc i j k, error) := by
  have hij : (twoIJ v i j : M ℝ) = .ok (2 * (i : ℝ) * (j : ℝ)) :=
    twoIJ_ok v (hs.imp id (fun h => ⟨h.1, h.2.1, h.2.2.1, h.2.2.2.1⟩))
  have hik : (twoIJ v i k : M ℝ) = .ok (2 * (i : ℝ) * (k : ℝ)) :=
    twoIJ_ok v (hs.imp id (fun h => ⟨h.1, h.2.1, h.2.2.2.2.1, h.2.2.2.2.2⟩))
  have hjk : (twoIJ v j k : M ℝ) = .ok (2 * (j : ℝ) * (k : ℝ)) :=
    twoIJ_ok v (hs.imp id (fun h => ⟨h.2.2.1, h.2.2.2.1, h.2.2.2.2.1, h.2.2.2.2.2⟩))
  unfold Crystal_dSpacing
  simp only [h0, if_false, hij, hik, hjk, ddiv, dsqrt, deq_real, lit0, lit1, xofInt, bind_ok, pure_eq_ok, throw_eq_error]
  by_cases ha : cc.a = 0
  · simp [ha]
  by_cases hb : cc.b = 0
  · simp [ha, hb]
  by_cases hc : cc.c = 0
  · simp [ha, hb, hc]
  have habc : cc.a * cc.b * cc.c ≠ 0 := mul_ne_zero (mul_ne_zero ha hb) hc
  have hab : cc.a * cc.b ≠ 0 := mul_ne_zero ha hb
  have hac : cc.a * cc.c ≠ 0 := mul_ne_zero ha hc
  have hbc : cc.b * cc.c ≠ 0 := mul_ne_zero hb hc
  simp only [ha, hb, hc, habc, hab, hac, hbc, if_false, bind_ok, false_or]
  have hX : pow2 ((i : ℝ) * sind cc.alpha / cc.a) + pow2 ((j : ℝ) * sind cc.beta / cc.b) + pow2 ((k : ℝ) * sind cc.gamma / cc.c) +
      2 * (i : ℝ) * (j : ℝ) * (cosd cc.alpha * cosd cc.beta - cosd cc.gamma) / (cc.a * cc.b) +
      2 * (i : ℝ) * (k : ℝ) * (cosd cc.alpha * cosd cc.gamma - cosd cc.beta) / (cc.a * cc.c) +
      2 * (j : ℝ) * (k : ℝ) * (cosd cc.beta * cosd cc.gamma - cosd cc.alpha) / (cc.b * cc.c) = Xq cc i j k := rfl
  rw [hX]
  by_cases hx : Xq cc i j k = 0
  · simp [hx]
  simp only [hx, if_false, bind_ok]
  by_cases hn : 1 / Xq cc i j k < 0
  · simp only [hn, if_true, bind_error]
  · simp only [hn, if_false, bind_ok]; rfl

/-! ## the quadratic form -/

theorem detC_real (cc : Crystal ℝ) :
    detC cc = 1 - cosd cc.alpha * cosd cc.alpha - cosd cc.beta * cosd cc.beta - cosd cc.gamma * cosd cc.gamma +
      2 * cosd cc.alpha * cosd cc.beta * cosd cc.gamma := by
  unfold detC pow2; simp only [lit1, lit2]

/-- `Xq` in cosines only: `uᵀ adj(C) u` with `u = (i/a, j/b, k/c)` -/
theorem Xq_cos (cc : Crystal ℝ) (i j k : Int) :
    Xq cc i j k =
      (1 - cosd cc.alpha * cosd cc.alpha) * ((i : ℝ) / cc.a) * ((i : ℝ) / cc.a) +
      (1 - cosd cc.beta * cosd cc.beta) * ((j : ℝ) / cc.b) * ((j : ℝ) / cc.b) +
      (1 - cosd cc.gamma * cosd cc.gamma) * ((k : ℝ) / cc.c) * ((k : ℝ) / cc.c) +
      2 * (cosd cc.alpha * cosd cc.beta - cosd cc.gamma) * ((i : ℝ) / cc.a) * ((j : ℝ) / cc.b) +
      2 * (cosd cc.alpha * cosd cc.gamma - cosd cc.beta) * ((i : ℝ) / cc.a) * ((k : ℝ) / cc.c) +
      2 * (cosd cc.beta * cosd cc.gamma - cosd cc.alpha) * ((j : ℝ) / cc.b) * ((k : ℝ) / cc.c) := by
  unfold Xq pow2
  rw [← sind_sq, ← sind_sq, ← sind_sq]
  simp only [div_eq_mul_inv, mul_inv]
  ring

theorem Xq_neg (cc : Crystal ℝ) (i j k : Int) : Xq cc (-i) (-j) (-k) = Xq cc i j k := by
  unfold Xq pow2; push_cast; ring

theorem Xq_scale (cc : Crystal ℝ) (n i j k : Int) : Xq cc (n * i) (n * j) (n * k) = (n : ℝ) ^ 2 * Xq cc i j k := by
  unfold Xq pow2; push_cast; ring

theorem Xq_pos {cc : Crystal ℝ} (hv : validCell cc) {i j k : Int} (h0 : ¬ (i = 0 ∧ j = 0 ∧ k = 0)) : 0 < Xq cc i j k := by
  obtain ⟨ha, hb, hc, hD, _⟩ := hv
  simp only [lit0] at ha hb hc hD
  rw [detC_real] at hD
  rw [Xq_cos]
  apply quad_pos _ _ _ _ _ _ (cosd_le_one _) hD
  by_contra hcon
  simp only [not_or, not_not] at hcon
  apply h0
  have h1 := hcon.1; have h2 := hcon.2.1; have h3 := hcon.2.2
  rw [div_eq_zero_iff] at h1 h2 h3
  refine ⟨?_, ?_, ?_⟩
  · exact_mod_cast h1.resolve_right ha.ne'
  · exact_mod_cast h2.resolve_right hb.ne'
  · exact_mod_cast h3.resolve_right hc.ne'

/-- on a valid cell the d-spacing is the value `dval`, and it is positive -/
theorem dSpacing_valid (v : Variant) {cc : Crystal ℝ} (hv : validCell cc) {i j k : Int} (error : Slot)
    (hs : SafeMiller v i j k) (h0 : ¬ (i = 0 ∧ j = 0 ∧ k = 0)) :
    Crystal_dSpacing v (some cc) i j k error = .ok (dval cc i j k, error) := by
  rw [dSpacing_eval v cc error hs h0]
  have hx := Xq_pos hv h0
  obtain ⟨ha, hb, hc, _, _⟩ := hv
  simp only [lit0] at ha hb hc
  have h1 : ¬ (cc.a = 0 ∨ cc.b = 0 ∨ cc.c = 0 ∨ Xq cc i j k = 0) := by
    simp [ha.ne', hb.ne', hc.ne', hx.ne']
  have h2 : ¬ (1 / Xq cc i j k < 0) := not_lt.mpr (by positivity)
  rw [if_neg h1, if_neg h2]

theorem dval_pos {cc : Crystal ℝ} (hv : validCell cc) {i j k : Int} (h0 : ¬ (i = 0 ∧ j = 0 ∧ k = 0)) :
    0 < dval cc i j k := by
  have hx := Xq_pos hv h0
  obtain ⟨ha, hb, hc, _, hvol⟩ := hv
  simp only [lit0] at ha hb hc hvol
  unfold dval
  have : 0 < Real.sqrt (1 / Xq cc i j k) := Real.sqrt_pos.mpr (by positivity)
  positivity

end C13
end Xrl
