import XrlC13.Core.Types
/-!
# Hand model of the numeric half of `src/crystal_diffraction.c`  (property C13)

Core Lean only, polymorphic in the carrier (ℝ in the proofs, `Float` in the compiled driver), executable.
The functions mirror the C code (line numbers of /repo/src/crystal_diffraction.c at 39e5c1a, before the repairs C13-1..5 went in).
The model is **not trusted**: on every run tools/c13_c2lean.py translates the nine functions from the working tree's C source
(XrlC13/Gen/Crystal.lean) and Props/C13g.lean proves `Gen.f = f repaired` for every input; the data types live in Core/Types.lean.

| model                                   | C                                                        |
|-----------------------------------------|----------------------------------------------------------|
| `c_abs`, `c_mul`                        | :32-46                                                   |
| `Bragg_angle`                           | :235-250                                                 |
| `Q_scattering_amplitude`                | :258-269                                                 |
| `Atomic_Factors`                        | :277-302                                                 |
| `Crystal_F_H_StructureFactor(2)`        | :310-322                                                 |
| `Crystal_F_H_StructureFactor_Partial(2)`| :330-425  (`fillCache` = loop :349-398, `sumAtoms` = loop :402-407) |
| `Crystal_UnitCellVolume`                | :433-445                                                 |
| `Crystal_dSpacing`                      | :453-475                                                 |
| `sind cosd pow2`                        | macros :26-29;  `PI TWOPI DEGRAD KEV2ANGST` include/xraylib.h:31-51 |

What is an *outcome* rather than a value (Core/Basic.lean):
* `sqrt` of a negative number, `asin` outside [−1,1], division by zero  → `nf`  (the C code produces NaN/±inf);
* subscripts of the stack arrays `f_re[120] f_im[120] f_is_computed[120]` outside 0..119 → `ub`;
* `cc->n_atom` through a NULL `crystal` → `ub`;
* the `int` products `2 * i_miller * j_miller` (:472-474) outside the range of `int` → `ub`;
* a read of `f_re[Z]`/`f_im[Z]` that was never written → `ub` (shown unreachable);
* an error stored over an error → `overwrite`.

The elemental functions `FF_Rayl`, `Fi`, `Fii` are **parameters** (`Elem`): their behaviour is the subject of other
properties (C02/C03), and the property text speaks of "the atomic factors the library itself reports".

`Variant` carries one switch per repair (notes/proposed_fixes/C13-*.diff, all applied to /repo since); `asIs` is the code as originally
shipped, `repaired` the code the refinement theorems speak about.  The check probes the library built from the working tree and
runs the compiled model with the switches it observes (correspondence in the `Float` reading).
-/
namespace Xrl
namespace C13

/-- which of the proposed repairs the code contains (all `false`: the code as shipped) -/
structure Variant where
  braggFix : Bool   -- C13-1: Bragg_angle reports "no reflection" instead of asin(>1) = NaN
  zFix : Bool       -- C13-2: Crystal_F_H_StructureFactor_Partial rejects Zatom outside 0..119
  nullFix : Bool    -- C13-3: … rejects crystal == NULL before reading cc->n_atom
  zeroFix : Bool    -- C13-4: Atomic_Factors recognises failure by the error, not by a zero value
  ovfFix : Bool     -- C13-5: Crystal_dSpacing computes 2.0 * i * j in double
  deriving Repr, DecidableEq, Inhabited

def asIs : Variant := ⟨false, false, false, false, false⟩
def repaired : Variant := ⟨true, true, true, true, true⟩

def NEGATIVE_ENERGY : String := "Energy must be strictly positive"
def INVALID_MILLER : String := "Miller indices cannot all be zero"
def NEGATIVE_DEBYE_FACTOR : String := "Debye-Waller factor must be strictly positive"
def CRYSTAL_NULL : String := "Crystal cannot be NULL"
def Z_OUT_OF_RANGE : String := "Z out of range"
/-- message of the proposed repair C13-1 -/
def NO_REFLECTION : String := "No Bragg reflection: the wavelength exceeds twice the d-spacing"

section
variable {α : Type} [Add α] [Sub α] [Mul α] [Div α] [Neg α] [LT α] [LE α] [OfScientific α]
  [DecidableLT α] [DecidableLE α] [XNum α]

/-- include/xraylib.h:31 -/
def PI : α := (3.1415926535897932384626433832795 : α)
/-- include/xraylib.h:35  `(2 * PI)` -/
def TWOPI : α := (2.0 : α) * PI
/-- include/xraylib.h:39  `( PI / 180.0 )` -/
def DEGRAD : α := PI / (180.0 : α)
/-- include/xraylib.h:51 -/
def KEV2ANGST : α := (12.39841930 : α)

/-- `#define sind(x) sin(x * DEGRAD)` :26 -/
def sind (x : α) : α := XNum.sin (x * DEGRAD)
/-- `#define cosd(x) cos(x * DEGRAD)` :27 -/
def cosd (x : α) : α := XNum.cos (x * DEGRAD)
/-- `#define pow2(x) pow(x, 2)` :29 — `pow(x, 2.0)` is `x * x` (clang folds it; glibc's `pow` is exact here up to
its 1-ulp bound, absorbed by the comparison tolerance) -/
def pow2 (x : α) : α := x * x

/-- `c_abs` :32-36 -/
def c_abs (re im : α) : M α := do
  let ans := re * re + im * im
  dsqrt ans

/-- `c_mul` :40-45 -/
def c_mul (xre xim yre yim : α) : α × α :=
  (xre * yre - xim * yim, xre * yim + xim * yre)

/-- `Crystal_UnitCellVolume` :433-445 -/
def Crystal_UnitCellVolume (crystal : Option (Crystal α)) (error : Slot) : M (α × Slot) :=
  match crystal with
  | none => do                                                                          -- :437-440
    let error ← setErr error XRL_ERROR_INVALID_ARGUMENT CRYSTAL_NULL
    pure ((0.0 : α), error)
  | some cc => do                                                                       -- :442-444
    let s ← dsqrt (((1.0 : α) - pow2 (cosd cc.alpha) - pow2 (cosd cc.beta) - pow2 (cosd cc.gamma)) +
                   (2.0 : α) * cosd cc.alpha * cosd cc.beta * cosd cc.gamma)
    pure (cc.a * cc.b * cc.c * s, error)

/-- the `int` product `2 * i * j` of :472-474, converted to `double`; after repair C13-5 `2.0 * i * j` -/
def twoIJ (v : Variant) (i j : Int) : M α :=
  if v.ovfFix = true then pure ((2.0 : α) * XNum.ofInt i * XNum.ofInt j)
  else do
    let t ← chkI "2 * i_miller" (2 * i)
    let t ← chkI "2 * i_miller * j_miller" (t * j)
    pure (XNum.ofInt t)

/-- `Crystal_dSpacing` :453-475 -/
def Crystal_dSpacing (v : Variant) (crystal : Option (Crystal α)) (i j k : Int) (error : Slot) : M (α × Slot) :=
  match crystal with
  | none => do                                                                          -- :456-459
    let error ← setErr error XRL_ERROR_INVALID_ARGUMENT CRYSTAL_NULL
    pure ((0.0 : α), error)
  | some cc =>
    if i = 0 ∧ j = 0 ∧ k = 0 then do                                                    -- :461-464
      let error ← setErr error XRL_ERROR_INVALID_ARGUMENT INVALID_MILLER
      pure ((0.0 : α), error)
    else do                                                                             -- :468-474
      let f ← ddiv cc.volume (cc.a * cc.b * cc.c)
      let t1 ← ddiv (XNum.ofInt i * sind cc.alpha) cc.a
      let t2 ← ddiv (XNum.ofInt j * sind cc.beta) cc.b
      let t3 ← ddiv (XNum.ofInt k * sind cc.gamma) cc.c
      let ij ← twoIJ v i j
      let t4 ← ddiv (ij * (cosd cc.alpha * cosd cc.beta - cosd cc.gamma)) (cc.a * cc.b)
      let ik ← twoIJ v i k
      let t5 ← ddiv (ik * (cosd cc.alpha * cosd cc.gamma - cosd cc.beta)) (cc.a * cc.c)
      let jk ← twoIJ v j k
      let t6 ← ddiv (jk * (cosd cc.beta * cosd cc.gamma - cosd cc.alpha)) (cc.b * cc.c)
      let r ← ddiv (1.0 : α) (pow2 t1 + pow2 t2 + pow2 t3 + t4 + t5 + t6)
      let s ← dsqrt r
      pure (f * s, error)

/-- `Bragg_angle` :235-250 -/
def Bragg_angle (v : Variant) (crystal : Option (Crystal α)) (energy : α) (i j k : Int) (error : Slot) :
    M (α × Slot) :=
  if energy ≤ (0.0 : α) then do                                                         -- :238-241
    let error ← setErr error XRL_ERROR_INVALID_ARGUMENT NEGATIVE_ENERGY
    pure ((0.0 : α), error)
  else do
    let (d_spacing, error) ← Crystal_dSpacing v crystal i j k error                     -- :243
    if deq d_spacing (0.0 : α) then pure ((0.0 : α), error)                             -- :244-245
    else do
      let wavelength ← ddiv KEV2ANGST energy                                            -- :247
      let s ← ddiv wavelength ((2.0 : α) * d_spacing)                                   -- :248
      if v.braggFix = true then
        if XNum.fabs s ≤ (1.0 : α) then pure (XNum.asin s, error)
        else do
          let error ← setErr error XRL_ERROR_INVALID_ARGUMENT NO_REFLECTION
          pure ((0.0 : α), error)
      else do
        let th ← dasin s                                                                -- :248 as shipped
        pure (th, error)

/-- `Q_scattering_amplitude` :258-269 -/
def Q_scattering_amplitude (v : Variant) (crystal : Option (Crystal α)) (energy : α) (i j k : Int)
    (rel_angle : α) (error : Slot) : M (α × Slot) :=
  if energy ≤ (0.0 : α) then do                                                         -- :260-263
    let error ← setErr error XRL_ERROR_INVALID_ARGUMENT NEGATIVE_ENERGY
    pure ((0.0 : α), error)
  else if i = 0 ∧ j = 0 ∧ k = 0 then pure ((0.0 : α), error)                             -- :265-266
  else do
    let (th, error) ← Bragg_angle v crystal energy i j k error                          -- :268
    let r ← ddiv (energy * XNum.sin (rel_angle * th)) KEV2ANGST
    pure (r, error)

/-- one term of the `||` chain of :290-292: evaluate the elemental function when the pointer is non-NULL -/
def afTerm (v : Variant) (want : Bool) (f : Slot → M (α × Slot)) (sign : α → α) (debye_factor : α) (error : Slot) :
    M (Option α × Bool × Slot) :=
  if want = true then
    if v.zeroFix = true then do
      -- C13-4: the call gets a local error; failure = the local error is set
      let (x, tmp) ← f Slot.empty
      if tmp.isFull = true then do
        let error ← propagateErr error tmp
        pure (some (sign x * debye_factor), true, error)
      else pure (some (sign x * debye_factor), false, error)
    else do
      let (x, error) ← f error
      let y := sign x * debye_factor
      pure (some y, decide (deq y (0.0 : α)), error)
  else pure (none, false, error)

/-- value of an out-parameter after the "all zero" assignments :281-286 / :293-298 -/
def zeroed (want : Bool) : Option α := if want = true then some (0.0 : α) else none

/-- `Atomic_Factors` :277-302.  `w0 wp wpp`: the pointers `f0 f_prime f_prime2` are non-NULL.
Result: return code and the three out-parameters (`none` for a NULL pointer). -/
def Atomic_Factors (v : Variant) (P : Elem α) (Z : Int) (energy q debye_factor : α) (w0 wp wpp : Bool)
    (error : Slot) : M ((Int × Option α × Option α × Option α) × Slot) :=
  if debye_factor ≤ (0.0 : α) then do                                                   -- :279-288
    let error ← setErr error XRL_ERROR_INVALID_ARGUMENT NEGATIVE_DEBYE_FACTOR
    pure ((0, zeroed w0, zeroed wp, zeroed wpp), error)
  else do
    let (f0, bad, error) ← afTerm v w0 (P.ff Z q) id debye_factor error                  -- :290
    if bad = true then pure ((0, zeroed w0, zeroed wp, zeroed wpp), error) else
    let (fp, bad, error) ← afTerm v wp (P.fi Z energy) id debye_factor error             -- :291
    if bad = true then pure ((0, zeroed w0, zeroed wp, zeroed wpp), error) else
    let (fpp, bad, error) ← afTerm v wpp (P.fii Z energy) (fun x => -x) debye_factor error   -- :292
    if bad = true then pure ((0, zeroed w0, zeroed wp, zeroed wpp), error) else
    pure ((1, f0, fp, fpp), error)                                                      -- :301

/-- the stack arrays `f_re[120] f_im[120] f_is_computed[120]` :333-334: `none` = `f_is_computed[Z] == 0` -/
abbrev Cache (α : Type) := Int → Option (α × α)

def Cache.empty : Cache α := fun _ => none
def Cache.set (c : Cache α) (Z : Int) (re im : α) : Cache α := fun z => if z = Z then some (re, im) else c z

def flagMsg (name : String) (flag : Int) : String := "Invalid " ++ name ++ " argument: " ++ toString flag

/-- the three `switch`es :358-394 on the factors of one element; `inl` = the `default:` arm that returns -/
def applyFlags (f0 f_prime f_prime2 : α) (f0_flag f_prime_flag f_prime2_flag : Int) (error : Slot) :
    M (Sum Slot (α × α)) := do
  if f0_flag ≠ 0 ∧ f0_flag ≠ 1 ∧ f0_flag ≠ 2 then                                       -- :368-370
    let error ← setErr error XRL_ERROR_INVALID_ARGUMENT (flagMsg "f0_flag" f0_flag)
    return Sum.inl error
  let re : α := if f0_flag = 0 then (0.0 : α) else if f0_flag = 1 then (1.0 : α) else f0   -- :359-367
  if f_prime_flag ≠ 0 ∧ f_prime_flag ≠ 2 then                                            -- :379-381
    let error ← setErr error XRL_ERROR_INVALID_ARGUMENT (flagMsg "f_prime_flag" f_prime_flag)
    return Sum.inl error
  let re : α := if f_prime_flag = 0 then re else re + f_prime                              -- :374-378
  if f_prime2_flag ≠ 0 ∧ f_prime2_flag ≠ 2 then                                          -- :391-393
    let error ← setErr error XRL_ERROR_INVALID_ARGUMENT (flagMsg "f_prime2_flag" f_prime2_flag)
    return Sum.inl error
  let im : α := if f_prime2_flag = 0 then (0.0 : α) else f_prime2                          -- :385-390
  return Sum.inr (re, im)

/-- first loop :349-398 over the atoms: fill the per-Z cache.  `inl error` = one of the early `return F_H` -/
def fillCache (v : Variant) (P : Elem α) (energy q debye_factor : α) (f0_flag f_prime_flag f_prime2_flag : Int) :
    List (Atom α) → Cache α → Slot → M (Sum Slot (Cache α × Slot))
  | [], c, error => pure (Sum.inr (c, error))
  | atom :: rest, c, error =>
    let Z := atom.Zatom                                                                  -- :351
    if 0 ≤ Z ∧ Z < 120 then
      if (c Z).isSome = true then                                                        -- :352-353
        fillCache v P energy q debye_factor f0_flag f_prime_flag f_prime2_flag rest c error
      else do
        let ((rc, f0, fp, fpp), error) ← Atomic_Factors v P Z energy q debye_factor true true true error  -- :355
        if rc = 0 then pure (Sum.inl error) else                                          -- :356
        match f0, fp, fpp with
        | some f0, some fp, some fpp => do
          match ← applyFlags f0 fp fpp f0_flag f_prime_flag f_prime2_flag error with      -- :358-394
          | Sum.inl error => pure (Sum.inl error)
          | Sum.inr (re, im) =>                                                           -- :396
            fillCache v P energy q debye_factor f0_flag f_prime_flag f_prime2_flag rest (c.set Z re im) error
        | _, _, _ => throw (.ub "Atomic_Factors left an out-parameter unset")
    else if v.zFix = true then do                                                        -- C13-2
      let error ← setErr error XRL_ERROR_INVALID_ARGUMENT Z_OUT_OF_RANGE
      pure (Sum.inl error)
    else throw (.ub "index out of bounds for f_is_computed[120] (crystal_diffraction.c:352)")

/-- second loop :402-407 -/
def sumAtoms (c : Cache α) (i j k : Int) : List (Atom α) → (α × α) → M (α × α)
  | [], F => pure F
  | atom :: rest, (Fre, Fim) =>
    match c atom.Zatom with                                                              -- :403
    | none => throw (.ub "f_re[Z] read before it was written (crystal_diffraction.c:405)")
    | some (f_re, f_im) =>
      let H_dot_r := TWOPI * (XNum.ofInt i * atom.x + XNum.ofInt j * atom.y + XNum.ofInt k * atom.z)   -- :404
      sumAtoms c i j k rest
        (Fre + atom.fraction * (f_re * XNum.cos H_dot_r - f_im * XNum.sin H_dot_r),       -- :405
         Fim + atom.fraction * (f_re * XNum.sin H_dot_r + f_im * XNum.cos H_dot_r))       -- :406

/-- `Crystal_F_H_StructureFactor_Partial` :330-410 -/
def Crystal_F_H_StructureFactor_Partial (v : Variant) (P : Elem α) (crystal : Option (Crystal α)) (energy : α)
    (i j k : Int) (debye_factor rel_angle : α) (f0_flag f_prime_flag f_prime2_flag : Int) (error : Slot) :
    M ((α × α) × Slot) := do
  let (q, tmp_error) ← Q_scattering_amplitude v crystal energy i j k rel_angle Slot.empty   -- :343
  if tmp_error.isFull = true then                                                         -- :344-347
    let error ← propagateErr error tmp_error
    return (((0.0 : α), (0.0 : α)), error)
  match crystal with
  | none =>
    if v.nullFix = true then do                                                           -- C13-3
      let error ← setErr error XRL_ERROR_INVALID_ARGUMENT CRYSTAL_NULL
      return (((0.0 : α), (0.0 : α)), error)
    else throw (.ub "member access cc->n_atom within NULL pointer (crystal_diffraction.c:349)")
  | some cc =>
    match ← fillCache v P energy q debye_factor f0_flag f_prime_flag f_prime2_flag cc.atoms Cache.empty error with
    | Sum.inl error => return (((0.0 : α), (0.0 : α)), error)
    | Sum.inr (c, error) => do
      let F ← sumAtoms c i j k cc.atoms ((0.0 : α), (0.0 : α))
      return (F, error)

/-- `Crystal_F_H_StructureFactor` :310-312 (and `…2` :317-322, `…Partial2` :417-425: same value through `result`) -/
def Crystal_F_H_StructureFactor (v : Variant) (P : Elem α) (crystal : Option (Crystal α)) (energy : α)
    (i j k : Int) (debye_factor rel_angle : α) (error : Slot) : M ((α × α) × Slot) :=
  Crystal_F_H_StructureFactor_Partial v P crystal energy i j k debye_factor rel_angle 2 2 2 error

/-! ## Validity (explicit, executable) -/

/-- the Gram determinant of the unit direction vectors: `1 − cos²α − cos²β − cos²γ + 2 cosα cosβ cosγ` -/
def detC (cc : Crystal α) : α :=
  ((1.0 : α) - pow2 (cosd cc.alpha) - pow2 (cosd cc.beta) - pow2 (cosd cc.gamma)) +
    (2.0 : α) * cosd cc.alpha * cosd cc.beta * cosd cc.gamma

/-- non-degenerate cell with a positive stored volume -/
def validCell (cc : Crystal α) : Prop :=
  (0.0 : α) < cc.a ∧ (0.0 : α) < cc.b ∧ (0.0 : α) < cc.c ∧ (0.0 : α) < detC cc ∧ (0.0 : α) < cc.volume
instance (cc : Crystal α) : Decidable (validCell cc) := by unfold validCell; infer_instance

/-- every `Zatom` is a legal subscript of the stack arrays -/
def validAtoms (cc : Crystal α) : Prop := ∀ atom ∈ cc.atoms, 0 ≤ atom.Zatom ∧ atom.Zatom < 120
instance (cc : Crystal α) : Decidable (validAtoms cc) := by unfold validAtoms; infer_instance

/-- Miller indices for which the `int` products `2*i*j` cannot overflow -/
def smallMiller (i j k : Int) : Prop := -32767 ≤ i ∧ i ≤ 32767 ∧ -32767 ≤ j ∧ j ≤ 32767 ∧ -32767 ≤ k ∧ k ≤ 32767
instance (i j k : Int) : Decidable (smallMiller i j k) := by unfold smallMiller; infer_instance

end
end C13
end Xrl
