#!/bin/sh
# Prebuild of the C13 Lean project (run once after a fresh restore, offline): translates src/crystal_diffraction.c of the
# working tree (${VERIF_REPO:-/repo}) into XrlC13/Gen/Crystal.lean, builds the hand model, the specification, the lemmas, the
# property theorems (Props/C13.lean), the refinement theorems generated code = hand model (Props/C13g.lean) — pays the cold
# Mathlib import once, leaves lean-c13/.lake populated — and the compiled model driver `c13-model`.  Nothing of /repo is
# compiled here: ./check C13 rebuilds the C side from the working tree in a scratch directory on every run (and regenerates
# XrlC13/Gen/Crystal.lean from the same tree).
set -e
cd "$(dirname "$0")"
python3 ../tools/c13_c2lean.py "${VERIF_REPO:-/repo}" XrlC13/Gen || [ $? -eq 3 ]
lake build XrlC13 XrlC13.Props.C13 XrlC13.Props.C13g c13-model
