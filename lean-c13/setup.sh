#!/bin/sh
# Prebuild of the C13 Lean project (run once after a fresh restore, offline): builds the hand model, the specification,
# the lemmas and the property theorems (pays the cold Mathlib import once; leaves lean-c13/.lake populated) and the
# compiled model driver `c13-model`.  Nothing of /repo is compiled here: ./check C13 rebuilds the C side from the
# working tree in a scratch directory on every run.
set -e
cd "$(dirname "$0")"
lake build XrlC13 XrlC13.Props.C13 c13-model
