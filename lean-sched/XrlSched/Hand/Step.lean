/-
Abstract step semantics for C16 (and the sequential half of C17).  Core-only.

A call of a library function is modelled by what it may DO to memory, not by what it computes: a `Prog` is a tree
of atomic accesses (read x / write x v / call of an external function) ending in a result.  Nothing else about a
call's behaviour is assumed: the theorems quantify over ALL programs that conform to a footprint
(`Prog.Conf`), which is exactly the information the footprint table of tools/footprint.py provides for the C code.

State (DESIGN §3 C16):  data tables × built-in crystal collection × process locale  (the shared part, `Shared`)
plus caller-owned memory, partitioned by owner (`heap owner slot`): arguments, error slot, returned objects,
scratch allocations of one caller / one thread.
-/
namespace XrlSched

abbrev Val := Nat

/-- shared objects and caller-owned cells -/
inductive Loc where
  | table (name : Nat)         -- a file-scope / static object of libxrl other than Crystal_arr (encoded name)
  | crystals                   -- Crystal_arr, the built-in crystal collection
  | locale                     -- the process-global locale; C code reaches it only through setlocale
  | userArr (k : Nat)          -- a Crystal_Array created by the APPLICATION and visible to several callers / threads (a user array
                               -- used by one caller only is that caller's `owned` memory); not an object of libxrl
  | owned (owner slot : Nat)   -- memory owned by caller `owner`
  deriving DecidableEq

def Loc.shared : Loc → Bool
  | .owned _ _ => false
  | _ => true

structure Shared where
  tables   : Nat → Val
  crystals : Val
  locale   : Val
  user     : Nat → Val := fun _ => 0

structure State where
  sh   : Shared
  heap : Nat → Nat → Val

def Shared.get (s : Shared) : Loc → Val
  | .table n => s.tables n
  | .crystals => s.crystals
  | .locale => s.locale
  | .userArr k => s.user k
  | .owned _ _ => 0

def State.get (s : State) : Loc → Val
  | .owned o j => s.heap o j
  | x => s.sh.get x

def State.set (s : State) : Loc → Val → State
  | .table n, v => { s with sh := { s.sh with tables := fun m => if m = n then v else s.sh.tables m } }
  | .crystals, v => { s with sh := { s.sh with crystals := v } }
  | .locale, v => { s with sh := { s.sh with locale := v } }
  | .userArr k, v => { s with sh := { s.sh with user := fun m => if m = k then v else s.sh.user m } }
  | .owned o j, v => { s with heap := fun o' j' => if o' = o ∧ j' = j then v else s.heap o' j' }

theorem State.get_set_same (s : State) (x : Loc) (v : Val) : (s.set x v).get x = v := by
  cases x <;> simp [State.set, State.get, Shared.get]

theorem State.get_set_ne (s : State) {x y : Loc} (v : Val) (h : y ≠ x) : (s.set x v).get y = s.get y := by
  cases x <;> cases y <;> simp_all [State.set, State.get, Shared.get]
  all_goals (intro h1 h2; exact absurd (by rw [h1, h2]) h)

theorem Shared.ext_get {a b : Shared} (h : ∀ x, x.shared = true → a.get x = b.get x) : a = b := by
  cases a with | mk ta ca la ua => cases b with | mk tb cb lb ub =>
  have h1 : ta = tb := funext fun n => h (.table n) rfl
  have h2 : ca = cb := h .crystals rfl
  have h3 : la = lb := h .locale rfl
  have h4 : ua = ub := funext fun n => h (.userArr n) rfl
  subst h1; subst h2; subst h3; subst h4; rfl

theorem State.get_shared (s : State) {x : Loc} (h : x.shared = true) : s.get x = s.sh.get x := by
  cases x <;> simp_all [State.get, Loc.shared]

/-- behaviour of the external (libc / libm) functions: result and effect on the shared state.  They see their
argument value and the shared state only; what they store into caller memory is modelled by `write` nodes. -/
structure Ext where
  run : Nat → Val → Shared → Val × Shared

inductive Prog where
  | ret   (r : Val)
  | read  (x : Loc) (k : Val → Prog)
  | write (x : Loc) (v : Val) (k : Prog)
  | ext   (f : Nat) (arg : Val) (k : Val → Prog)

/-- sequential execution of one call -/
def Prog.run (E : Ext) : Prog → State → Val × State
  | .ret r, s => (r, s)
  | .read x k, s => (k (s.get x)).run E s
  | .write x v k, s => k.run E (s.set x v)
  | .ext f a k, s => (k (E.run f a s.sh).1).run E { s with sh := (E.run f a s.sh).2 }

/-- `p` conforms to the footprint (W, X) for owner `o`: it reads shared objects and `o`'s own memory only, writes
`o`'s own memory and those shared objects that `W` admits, and calls only external functions that `X` admits. -/
def Prog.Conf (o : Nat) (W : Loc → Prop) (X : Nat → Prop) : Prog → Prop
  | .ret _ => True
  | .read x k => (x.shared = true ∨ ∃ j, x = .owned o j) ∧ ∀ v, (k v).Conf o W X
  | .write x _ k => ((x.shared = true ∧ W x) ∨ ∃ j, x = .owned o j) ∧ k.Conf o W X
  | .ext f _ k => X f ∧ ∀ v, (k v).Conf o W X

theorem Prog.Conf.mono {o : Nat} {W W' : Loc → Prop} {X X' : Nat → Prop}
    (hW : ∀ x, W x → W' x) (hX : ∀ f, X f → X' f) : ∀ {p : Prog}, p.Conf o W X → p.Conf o W' X'
  | .ret _, _ => trivial
  | .read _ _, h => ⟨h.1, fun v => Prog.Conf.mono hW hX (h.2 v)⟩
  | .write _ _ _, h => ⟨h.1.elim (fun a => Or.inl ⟨a.1, hW _ a.2⟩) Or.inr, Prog.Conf.mono hW hX h.2⟩
  | .ext _ _ _, h => ⟨hX _ h.1, fun v => Prog.Conf.mono hW hX (h.2 v)⟩

/-- the external functions admitted by `X` change shared objects only where `W` admits it -/
def Ext.Respects (E : Ext) (W : Loc → Prop) (X : Nat → Prop) : Prop :=
  ∀ f, X f → ∀ a sh x, x.shared = true → ¬ W x → (E.run f a sh).2.get x = sh.get x

/-- FRAME: a conforming call leaves alone every shared object outside `W` and every cell of another owner -/
theorem Prog.run_frame {E : Ext} {o : Nat} {W : Loc → Prop} {X : Nat → Prop} (hE : E.Respects W X) :
    ∀ {p : Prog} {s : State}, p.Conf o W X → ∀ x : Loc,
      ((x.shared = true ∧ ¬ W x) ∨ ∃ o' j, o' ≠ o ∧ x = .owned o' j) → (p.run E s).2.get x = s.get x
  | .ret _, _, _, _, _ => rfl
  | .read _ k, s, h, x, hx => by
      simp only [Prog.run]; exact Prog.run_frame hE (h.2 _) x hx
  | .write y v k, s, h, x, hx => by
      simp only [Prog.run]
      rw [Prog.run_frame hE h.2 x hx]
      apply State.get_set_ne
      intro hxy; subst hxy
      rcases h.1 with ⟨_, hw⟩ | ⟨j, hj⟩
      · rcases hx with ⟨_, hnw⟩ | ⟨o', j', _, hx'⟩
        · exact hnw hw
        · subst hx'; simp [Loc.shared] at *
      · rcases hx with ⟨hs, _⟩ | ⟨o', j', hne, hx'⟩
        · subst hj; simp [Loc.shared] at hs
        · rw [hj] at hx'; cases hx'; exact hne rfl
  | .ext f a k, s, h, x, hx => by
      simp only [Prog.run]
      rw [Prog.run_frame hE (h.2 _) x hx]
      rcases hx with ⟨hs, hnw⟩ | ⟨o', j', _, hx'⟩
      · rw [State.get_shared _ hs, State.get_shared _ hs]
        exact hE f h.1 a s.sh x hs hnw
      · subst hx'; rfl

/-- two states look the same to owner `o`: same shared part, same memory of `o` -/
def State.Agree (o : Nat) (s s' : State) : Prop := s.sh = s'.sh ∧ ∀ j, s.heap o j = s'.heap o j

theorem State.Agree.refl (o : Nat) (s : State) : s.Agree o s := ⟨rfl, fun _ => rfl⟩
theorem State.Agree.symm {o : Nat} {s s' : State} (h : s.Agree o s') : s'.Agree o s := ⟨h.1.symm, fun j => (h.2 j).symm⟩
theorem State.Agree.trans {o : Nat} {a b c : State} (h : a.Agree o b) (h' : b.Agree o c) : a.Agree o c :=
  ⟨h.1.trans h'.1, fun j => (h.2 j).trans (h'.2 j)⟩

theorem State.Agree.get {o : Nat} {s s' : State} (h : s.Agree o s') {x : Loc}
    (hx : x.shared = true ∨ ∃ j, x = .owned o j) : s.get x = s'.get x := by
  rcases hx with hs | ⟨j, rfl⟩
  · rw [State.get_shared _ hs, State.get_shared _ hs, h.1]
  · exact h.2 j

theorem State.Agree.set {o : Nat} {s s' : State} (h : s.Agree o s') (x : Loc) (v : Val) :
    (s.set x v).Agree o (s'.set x v) := by
  obtain ⟨h1, h2⟩ := h
  cases x with
  | owned o' j' =>
    refine ⟨h1, fun j => ?_⟩
    simp only [State.set]
    split <;> simp_all
  | _ => simp [State.set, State.Agree, h1, h2]

/-- LOCALITY: what a conforming call returns, and what it leaves in its owner's memory and in the shared state,
depends only on the shared state and the owner's memory it started from -/
theorem Prog.run_agree {E : Ext} {o : Nat} {W : Loc → Prop} {X : Nat → Prop} :
    ∀ {p : Prog} {s s' : State}, p.Conf o W X → s.Agree o s' →
      (p.run E s).1 = (p.run E s').1 ∧ (p.run E s).2.Agree o (p.run E s').2
  | .ret _, _, _, _, ha => ⟨rfl, ha⟩
  | .read x k, s, s', h, ha => by
      simp only [Prog.run]; rw [ha.get h.1]; exact Prog.run_agree (h.2 _) ha
  | .write x v k, s, s', h, ha => by
      simp only [Prog.run]; exact Prog.run_agree h.2 (ha.set x v)
  | .ext f a k, s, s', h, ha => by
      simp only [Prog.run]; rw [ha.1]
      exact Prog.run_agree (h.2 _) ⟨rfl, ha.2⟩

/-! ### calls, histories -/

structure Call where
  owner : Nat
  prog  : Prog

/-- `step : State → Call → State × Result` of DESIGN §3 C16 -/
def step (E : Ext) (s : State) (c : Call) : State × Val := ((c.prog.run E s).2, (c.prog.run E s).1)

def runHist (E : Ext) (s : State) (h : List Call) : State := h.foldl (fun s c => (step E s c).1) s

theorem runHist_cons (E : Ext) (s : State) (c : Call) (h : List Call) :
    runHist E s (c :: h) = runHist E (step E s c).1 h := rfl

theorem runHist_append (E : Ext) (s : State) (h h' : List Call) :
    runHist E s (h ++ h') = runHist E (runHist E s h) h' := by
  simp [runHist, List.foldl_append]

/-- frame over a history: objects outside `W` and cells of owners that do not occur in the history are unchanged -/
theorem runHist_frame {E : Ext} {W : Loc → Prop} {X : Nat → Prop} (hE : E.Respects W X) :
    ∀ (h : List Call) (s : State), (∀ c ∈ h, c.prog.Conf c.owner W X) → ∀ x : Loc,
      ((x.shared = true ∧ ¬ W x) ∨ ∃ o' j, (∀ c ∈ h, c.owner ≠ o') ∧ x = .owned o' j) →
      (runHist E s h).get x = s.get x
  | [], _, _, _, _ => rfl
  | c :: h, s, hc, x, hx => by
      rw [runHist_cons]
      have hx' : (x.shared = true ∧ ¬ W x) ∨ ∃ o' j, (∀ c ∈ h, c.owner ≠ o') ∧ x = .owned o' j := by
        rcases hx with a | ⟨o', j, hn, rfl⟩
        · exact Or.inl a
        · exact Or.inr ⟨o', j, fun c' hc' => hn c' (List.mem_cons_of_mem _ hc'), rfl⟩
      rw [runHist_frame hE h _ (fun c' hc' => hc c' (List.mem_cons_of_mem _ hc')) x hx']
      apply Prog.run_frame hE (hc c (List.mem_cons_self ..)) x
      rcases hx with a | ⟨o', j, hn, rfl⟩
      · exact Or.inl a
      · exact Or.inr ⟨o', j, fun e => hn c (List.mem_cons_self ..) e.symm, rfl⟩

end XrlSched
