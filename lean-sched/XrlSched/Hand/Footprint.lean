/-
Footprint tables (DESIGN §2.3, side table 1) and the Boolean transitive-closure checker used by C16/C17.

The table itself is GENERATED on every run by tools/footprint.py from the clang AST of every translation
unit of libxrl (XrlSched/Gen/Footprint.lean).  This file is hand-written and core-only: the record types, the
call-graph reachability relation, a worklist closure, and the soundness lemma that turns one kernel-decided
Boolean (`checkEntries … = true`) into a statement about EVERY function reachable from an entry point.
-/
namespace XrlSched

/-- Names are base-256 encoded natural numbers (`tools/footprint.py: enc`); `nm! "malloc"` is the literal. -/
macro "nm!" s:str : term => do
  let v := s.getString.foldl (fun a c => a * 256 + c.toNat) 0
  return Lean.Syntax.mkNumLit (toString v)

/-- direct footprint of one C function definition -/
structure Fn where
  name    : Nat        -- encoded name
  reads   : List Nat   -- file-scope / static objects referenced
  writes  : List Nat   -- file-scope / static objects that may be written (incl. through aliases and callees' parameters)
  statics : List Nat   -- local `static` variables declared in the body (`f::x`)
  callees : List Nat   -- indices (into the table) of program functions called or whose address is taken
  exts    : List Nat   -- external (libc/libm) functions called

/-- what a public function lets escape to its caller (points-to summary of tools/footprint.py; `fresh` = only memory allocated
during the call, from which neither the caller's arguments nor a library object can be reached) -/
structure Escape where
  fn         : Nat     -- index into the table
  name       : Nat     -- encoded name
  ptrRet     : Bool    -- the return type is a pointer
  retFresh   : Bool    -- the returned pointer and every heap block reachable from it are fresh
  outFresh   : Bool    -- everything stored through a parameter (error slot, out-parameter, array handed in) is fresh
  constWrite : Bool    -- the function writes through a parameter declared `const T *`

/-- one `setlocale(category, arg)` call of a function, in source order -/
inductive LocaleOp where
  | query    (cat : Nat)              -- setlocale(cat, NULL)
  | setLit   (cat : Nat) (name : Nat) -- setlocale(cat, "<literal>")
  | setRet   (cat : Nat) (k : Nat)    -- setlocale(cat, v)  where v holds (a copy of) the value returned by the k-th call
  | setOther (cat : Nat)              -- anything else
  deriving DecidableEq, Repr

structure LocaleProto where
  fn      : Nat            -- index of the function
  complex : Bool           -- some call sits in a branch/loop or a return intervenes: not a straight-line protocol
  ops     : List LocaleOp

abbrev Table := List Fn

def calleesOf (t : Table) (i : Nat) : List Nat :=
  match t[i]? with
  | some f => f.callees
  | none => []

/-- `Reach t a b`: `b` is reachable from `a` in the call graph of `t` -/
inductive Reach (t : Table) : Nat → Nat → Prop
  | refl (a : Nat) : Reach t a a
  | step {a b c : Nat} : Reach t a b → c ∈ calleesOf t b → Reach t a c

/-- worklist closure over a bit mask (bit `i` = function `i` visited): every function is expanded at most once.
Its result is only a candidate: `checkEntries` verifies that it is closed, so no fuel argument has to be justified. -/
def dfs (t : Table) : Nat → List Nat → Nat → Nat
  | 0, _, vis => vis
  | _ + 1, [], vis => vis
  | n + 1, i :: st, vis =>
      let new := (calleesOf t i).filter (fun c => !vis.testBit c)
      dfs t n (new ++ st) (new.foldl (fun v c => v ||| (1 <<< c)) vis)

def maskOf (l : List Nat) : Nat := l.foldl (fun v c => v ||| (1 <<< c)) 0

def closureOf (t : Table) (entries : List Nat) : Nat :=
  dfs t (t.length + entries.length + 1) entries (maskOf entries)

def fnOk (okW okX : Nat → Bool) (f : Fn) : Bool := f.writes.all okW && f.exts.all okX

/-- a visited row: its callees are defined and visited, and the row itself is acceptable -/
def rowOk (n R : Nat) (okW okX : Nat → Bool) (f : Fn) : Bool :=
  f.callees.all (fun c => decide (c < n) && R.testBit c) && fnOk okW okX f

def rowsOk (n R : Nat) (okW okX : Nat → Bool) : List Fn → Nat → Bool
  | [], _ => true
  | f :: fs, i => (!R.testBit i || rowOk n R okW okX f) && rowsOk n R okW okX fs (i + 1)

theorem rowsOk_get {n R : Nat} {okW okX : Nat → Bool} {l : List Fn} {k j : Nat} {f : Fn}
    (h : rowsOk n R okW okX l k = true) (hj : l[j]? = some f) (hb : R.testBit (k + j) = true) :
    rowOk n R okW okX f = true := by
  induction l generalizing k j with
  | nil => simp at hj
  | cons g gs ih =>
    simp only [rowsOk, Bool.and_eq_true, Bool.or_eq_true, Bool.not_eq_true'] at h
    cases j with
    | zero =>
      simp at hj; subst hj
      rcases h.1 with h0 | h0
      · have hb' : R.testBit k = true := by simpa using hb
        rw [hb'] at h0; exact absurd h0 (by decide)
      · exact h0
    | succ j =>
      simp at hj
      exact ih h.2 hj (by rw [show k + 1 + j = k + (j + 1) by omega]; exact hb)

/-- the kernel-decided check: the closure of `entries` is closed under callees, every member is defined in the
table, writes only objects accepted by `okW` and calls only external functions accepted by `okX` -/
def checkEntries (t : Table) (entries : List Nat) (okW okX : Nat → Bool) : Bool :=
  entries.all (fun e => decide (e < t.length) && (closureOf t entries).testBit e)
    && rowsOk t.length (closureOf t entries) okW okX t 0

theorem calleesOf_eq {t : Table} {i : Nat} {f : Fn} (h : t[i]? = some f) : calleesOf t i = f.callees := by
  simp [calleesOf, h]

theorem reach_inv {t : Table} {entries : List Nat} {okW okX : Nat → Bool}
    (h : checkEntries t entries okW okX = true) {e : Nat} (he : e ∈ entries) {i : Nat} (hr : Reach t e i) :
    i < t.length ∧ (closureOf t entries).testBit i = true := by
  unfold checkEntries at h
  simp only [Bool.and_eq_true] at h
  induction hr with
  | refl =>
    have := (List.all_eq_true.mp h.1) _ he
    simp only [Bool.and_eq_true, decide_eq_true_eq] at this
    exact this
  | @step b c _ hcal ih =>
    obtain ⟨hb, hbit⟩ := ih
    have hf : t[b]? = some t[b] := List.getElem?_eq_getElem hb
    have hrow := rowsOk_get h.2 hf (by simpa using hbit)
    rw [calleesOf_eq hf] at hcal
    unfold rowOk at hrow
    simp only [Bool.and_eq_true] at hrow
    have := (List.all_eq_true.mp hrow.1) _ hcal
    simp only [Bool.and_eq_true, decide_eq_true_eq] at this
    exact this

/-- transitive footprint of an entry point -/
def TransWrites (t : Table) (e w : Nat) : Prop := ∃ i f, Reach t e i ∧ t[i]? = some f ∧ w ∈ f.writes
def TransExts (t : Table) (e x : Nat) : Prop := ∃ i f, Reach t e i ∧ t[i]? = some f ∧ x ∈ f.exts

theorem checkEntries_sound {t : Table} {entries : List Nat} {okW okX : Nat → Bool}
    (h : checkEntries t entries okW okX = true) {e : Nat} (he : e ∈ entries) {i : Nat} (hr : Reach t e i) :
    ∃ f, t[i]? = some f ∧ (∀ w ∈ f.writes, okW w = true) ∧ (∀ x ∈ f.exts, okX x = true) := by
  obtain ⟨hi, hbit⟩ := reach_inv h he hr
  have hf : t[i]? = some t[i] := List.getElem?_eq_getElem hi
  unfold checkEntries at h
  simp only [Bool.and_eq_true] at h
  have hrow := rowsOk_get h.2 hf (by simpa using hbit)
  unfold rowOk fnOk at hrow
  simp only [Bool.and_eq_true] at hrow
  exact ⟨t[i], hf, fun w hw => (List.all_eq_true.mp hrow.2.1) _ hw, fun x hx => (List.all_eq_true.mp hrow.2.2) _ hx⟩

theorem checkEntries_writes {t : Table} {entries : List Nat} {okW okX : Nat → Bool}
    (h : checkEntries t entries okW okX = true) {e : Nat} (he : e ∈ entries) {w : Nat}
    (hw : TransWrites t e w) : okW w = true := by
  obtain ⟨i, f, hr, hf, hm⟩ := hw
  obtain ⟨f', hf', h1, _⟩ := checkEntries_sound h he hr
  rw [hf] at hf'; cases hf'; exact h1 _ hm

theorem checkEntries_exts {t : Table} {entries : List Nat} {okW okX : Nat → Bool}
    (h : checkEntries t entries okW okX = true) {e : Nat} (he : e ∈ entries) {x : Nat}
    (hx : TransExts t e x) : okX x = true := by
  obtain ⟨i, f, hr, hf, hm⟩ := hx
  obtain ⟨f', hf', _, h2⟩ := checkEntries_sound h he hr
  rw [hf] at hf'; cases hf'; exact h2 _ hm

/-- functions from which a call of the external function `x` is reachable: `rounds` rounds of backward propagation
(a candidate only: what is claimed about the entries outside it is re-verified by `checkEntries`) -/
def reachersStep (x : Nat) (L : Nat) : List Fn → Nat → Nat → Nat
  | [], _, acc => acc
  | f :: fs, i, acc =>
      reachersStep x L fs (i + 1) (if f.exts.contains x || f.callees.any L.testBit then acc ||| (1 <<< i) else acc)

def reachers (t : Table) (x : Nat) : Nat → Nat → Nat
  | 0, L => L
  | n + 1, L => reachers t x n (reachersStep x L t 0 L)

/-- evaluate a list to a literal before handing it on (the kernel reduces by substitution) -/
def withList {β : Type} : List Nat → (List Nat → β) → β
  | [], k => k []
  | x :: xs, k => withList xs (fun ys => k (x :: ys))

theorem withList_eq {β : Type} (l : List Nat) (k : List Nat → β) : withList l k = k l := by
  induction l generalizing k with
  | nil => rfl
  | cons x xs ih => simp [withList, ih]

end XrlSched
