/-
Interleaving semantics for C17 (DESIGN §2.5 `Hand/Sched`).  Core-only.

Threads run scripts of calls; a call is its sequence of atomic shared-memory accesses (`Prog`: read x / write x /
external call), and a schedule — an arbitrary list of thread ids — says which thread performs its next atomic
step.  Thread `t` owns the memory `heap t` (its error slots, arguments, results, scratch).

What this model cannot exhibit: the hardware/compiler memory model (every access is atomic and sequentially
consistent here) and races inside libc (an external call is one atomic step whose MT-safety is an input).
-/
import XrlSched.Hand.Step
namespace XrlSched

structure Thread where
  cur  : Option Prog    -- the call in progress (its continuation)
  todo : List Prog      -- calls still to be made
  done : List Val       -- results of the completed calls, oldest first

/-- one atomic step of a thread against the state -/
def Thread.step (E : Ext) (t : Thread) (s : State) : Thread × State :=
  match t.cur with
  | none =>
    match t.todo with
    | [] => (t, s)
    | p :: ps => ({ t with cur := some p, todo := ps }, s)
  | some (.ret r) => ({ t with cur := none, done := t.done ++ [r] }, s)
  | some (.read x k) => ({ t with cur := some (k (s.get x)) }, s)
  | some (.write x v k) => ({ t with cur := some k }, s.set x v)
  | some (.ext f a k) => ({ t with cur := some (k (E.run f a s.sh).1) }, { s with sh := (E.run f a s.sh).2 })

structure Config where
  st : State
  th : Nat → Thread

def Config.step (E : Ext) (c : Config) (tid : Nat) : Config :=
  { st := ((c.th tid).step E c.st).2,
    th := fun u => if u = tid then ((c.th tid).step E c.st).1 else c.th u }

/-- run a schedule -/
def runSched (E : Ext) (c : Config) (σ : List Nat) : Config := σ.foldl (Config.step E) c

/-- thread `t` alone: `n` of its own steps, nobody else runs -/
def solo (E : Ext) (t : Thread) (s : State) : Nat → Thread × State
  | 0 => (t, s)
  | n + 1 => solo E (t.step E s).1 (t.step E s).2 n

/-! ### accesses and conflicts -/

inductive Access where
  | rd (x : Loc)
  | wr (x : Loc)
  | ex (f : Nat)

/-- the access a thread performs at its next step, if that step touches memory or calls out -/
def Thread.next (t : Thread) : Option Access :=
  match t.cur with
  | some (.read x _) => some (.rd x)
  | some (.write x _ _) => some (.wr x)
  | some (.ext f _ _) => some (.ex f)
  | _ => none

/-- two accesses of different threads conflict: same location and at least one write; or two external calls one
of which is not MT-Safe -/
def Conflict (mtSafe : Nat → Prop) : Access → Access → Prop
  | .rd x, .wr y => x = y
  | .wr x, .rd y => x = y
  | .wr x, .wr y => x = y
  | .ex f, .ex g => ¬ (mtSafe f ∧ mtSafe g)
  | _, _ => False

/-! ### conformance of threads -/

def Thread.Conf (o : Nat) (W : Loc → Prop) (X : Nat → Prop) (t : Thread) : Prop :=
  (∀ p, t.cur = some p → p.Conf o W X) ∧ ∀ p ∈ t.todo, p.Conf o W X

theorem Thread.step_conf {E : Ext} {o : Nat} {W : Loc → Prop} {X : Nat → Prop} {t : Thread} (s : State)
    (h : t.Conf o W X) : (t.step E s).1.Conf o W X := by
  obtain ⟨hc, ht⟩ := h
  unfold Thread.step
  cases hcur : t.cur with
  | none =>
    cases htodo : t.todo with
    | nil => exact ⟨by simp [hcur], by simp [htodo]⟩
    | cons p ps =>
      refine ⟨?_, ?_⟩
      · intro q hq; simp at hq; subst hq; exact ht p (by simp [htodo])
      · intro q hq; exact ht q (by simp [htodo]; exact Or.inr hq)
  | some p =>
    have hp := hc p hcur
    cases p with
    | ret r => exact ⟨by simp, ht⟩
    | read x k => exact ⟨by intro q hq; simp at hq; subst hq; exact hp.2 _, ht⟩
    | write x v k => exact ⟨by intro q hq; simp at hq; subst hq; exact hp.2, ht⟩
    | ext f a k => exact ⟨by intro q hq; simp at hq; subst hq; exact hp.2 _, ht⟩

/-- FRAME for one thread step -/
theorem Thread.step_frame {E : Ext} {o : Nat} {W : Loc → Prop} {X : Nat → Prop} (hE : E.Respects W X) {t : Thread}
    (s : State) (h : t.Conf o W X) (x : Loc)
    (hx : (x.shared = true ∧ ¬ W x) ∨ ∃ o' j, o' ≠ o ∧ x = .owned o' j) : (t.step E s).2.get x = s.get x := by
  unfold Thread.step
  cases hcur : t.cur with
  | none => cases t.todo <;> rfl
  | some p =>
    have hp := h.1 p hcur
    cases p with
    | ret r => rfl
    | read y k => rfl
    | write y v k =>
      apply State.get_set_ne
      intro hxy; subst hxy
      rcases hp.1 with ⟨_, hw⟩ | ⟨j, hj⟩
      · rcases hx with ⟨_, hnw⟩ | ⟨o', j', _, hx'⟩
        · exact hnw hw
        · subst hx'; simp [Loc.shared] at *
      · rcases hx with ⟨hs, _⟩ | ⟨o', j', hne, hx'⟩
        · subst hj; simp [Loc.shared] at hs
        · rw [hj] at hx'; cases hx'; exact hne rfl
    | ext f a k =>
      rcases hx with ⟨hs, hnw⟩ | ⟨o', j', _, hx'⟩
      · show State.get { s with sh := (E.run f a s.sh).2 } x = s.get x
        rw [State.get_shared _ hs, State.get_shared _ hs]
        exact hE f hp.1 a s.sh x hs hnw
      · subst hx'; rfl

/-- LOCALITY for one thread step -/
theorem Thread.step_agree {E : Ext} {o : Nat} {W : Loc → Prop} {X : Nat → Prop} {t : Thread} {s s' : State}
    (h : t.Conf o W X) (ha : s.Agree o s') :
    (t.step E s).1 = (t.step E s').1 ∧ (t.step E s).2.Agree o (t.step E s').2 := by
  unfold Thread.step
  cases hcur : t.cur with
  | none => cases t.todo <;> exact ⟨rfl, ha⟩
  | some p =>
    have hp := h.1 p hcur
    cases p with
    | ret r => exact ⟨rfl, ha⟩
    | read y k => exact ⟨by simp only []; rw [ha.get hp.1], ha⟩
    | write y v k => exact ⟨rfl, ha.set y v⟩
    | ext f a k => exact ⟨by simp only []; rw [ha.1], by simp only []; rw [ha.1]; exact ⟨rfl, ha.2⟩⟩

theorem solo_agree {E : Ext} {o : Nat} {W : Loc → Prop} {X : Nat → Prop} :
    ∀ (n : Nat) {t : Thread} {s s' : State}, t.Conf o W X → s.Agree o s' →
      (solo E t s n).1 = (solo E t s' n).1 ∧ (solo E t s n).2.Agree o (solo E t s' n).2
  | 0, _, _, _, _, ha => ⟨rfl, ha⟩
  | n + 1, t, s, s', h, ha => by
      obtain ⟨h1, h2⟩ := Thread.step_agree (E := E) h ha
      simp only [solo]
      rw [← h1]
      exact solo_agree n (Thread.step_conf s h) h2

/-! ### configurations -/

/-- every thread `u` conforms as owner `u` -/
def Config.Conf (W : Loc → Prop) (X : Nat → Prop) (c : Config) : Prop := ∀ u, (c.th u).Conf u W X

theorem Config.step_conf {E : Ext} {W : Loc → Prop} {X : Nat → Prop} {c : Config} (h : c.Conf W X) (tid : Nat) :
    (c.step E tid).Conf W X := by
  intro u
  simp only [Config.step]
  split
  · next e => subst e; exact Thread.step_conf _ (h u)
  · exact h u

theorem runSched_conf {E : Ext} {W : Loc → Prop} {X : Nat → Prop} :
    ∀ (σ : List Nat) {c : Config}, c.Conf W X → (runSched E c σ).Conf W X
  | [], _, h => h
  | t :: σ, _, h => runSched_conf σ (Config.step_conf h t)

theorem runSched_cons (E : Ext) (c : Config) (t : Nat) (σ : List Nat) :
    runSched E c (t :: σ) = runSched E (c.step E t) σ := rfl

/-- SERIAL EQUIVALENCE, general form: under a footprint without shared writes, after ANY schedule every thread is
in exactly the state — call in progress, remaining script, results so far — that it reaches when it runs the
same number of its own steps alone from the initial state; and the shared state never changes. -/
theorem runSched_solo {E : Ext} {X : Nat → Prop} (hE : E.Respects (fun _ => False) X) :
    ∀ (σ : List Nat) {c : Config}, c.Conf (fun _ => False) X → ∀ t,
      (runSched E c σ).th t = (solo E (c.th t) c.st (σ.count t)).1
      ∧ (runSched E c σ).st.Agree t (solo E (c.th t) c.st (σ.count t)).2
  | [], c, _, t => ⟨rfl, State.Agree.refl _ _⟩
  | u :: σ, c, h, t => by
      rw [runSched_cons]
      have ih := runSched_solo hE σ (Config.step_conf (E := E) h u) t
      by_cases hut : u = t
      · subst hut
        have hth : (c.step E u).th u = ((c.th u).step E c.st).1 := by simp [Config.step]
        have hst : (c.step E u).st = ((c.th u).step E c.st).2 := rfl
        rw [hth, hst] at ih
        simpa [List.count_cons_self, solo] using ih
      · have hth : (c.step E u).th t = c.th t := by
          simp only [Config.step]; rw [if_neg (fun e => hut e.symm)]
        have hag : (c.step E u).st.Agree t c.st := by
          refine ⟨?_, fun j => ?_⟩
          · apply Shared.ext_get
            intro x hx
            have := Thread.step_frame hE c.st (h u) x (Or.inl ⟨hx, fun f => f⟩)
            rw [State.get_shared _ hx, State.get_shared _ hx] at this
            exact this
          · exact Thread.step_frame hE c.st (h u) (.owned t j) (Or.inr ⟨t, j, fun e => hut e.symm, rfl⟩)
        rw [hth] at ih
        have hcount : (u :: σ).count t = σ.count t := by
          rw [List.count_cons]; simp [hut]
        rw [hcount]
        obtain ⟨s1, s2⟩ := solo_agree (E := E) (σ.count t) (h t) hag
        exact ⟨ih.1.trans s1, ih.2.trans s2⟩

/-- the shared state is the same after every schedule -/
theorem runSched_shared {E : Ext} {X : Nat → Prop} (hE : E.Respects (fun _ => False) X) :
    ∀ (σ : List Nat) {c : Config}, c.Conf (fun _ => False) X → (runSched E c σ).st.sh = c.st.sh
  | [], _, _ => rfl
  | u :: σ, c, h => by
      rw [runSched_cons, runSched_shared hE σ (Config.step_conf (E := E) h u)]
      apply Shared.ext_get
      intro x hx
      have := Thread.step_frame hE c.st (h u) x (Or.inl ⟨hx, fun f => f⟩)
      rw [State.get_shared _ hx, State.get_shared _ hx] at this
      exact this

/-- RACE FREEDOM, general form: in a conforming configuration the next accesses of two different threads never
conflict -/
theorem conf_no_conflict {X : Nat → Prop} {mtSafe : Nat → Prop} (hX : ∀ f, X f → mtSafe f) {c : Config}
    (h : c.Conf (fun _ => False) X) {t u : Nat} (htu : t ≠ u) {a b : Access}
    (ha : (c.th t).next = some a) (hb : (c.th u).next = some b) : ¬ Conflict mtSafe a b := by
  have key : ∀ (o : Nat) (th : Thread) (acc : Access), th.Conf o (fun _ => False) X → th.next = some acc →
      match acc with
      | .rd x => x.shared = true ∨ ∃ j, x = .owned o j
      | .wr x => ∃ j, x = .owned o j
      | .ex f => X f := by
    intro o th acc hc hn
    unfold Thread.next at hn
    cases hcur : th.cur with
    | none => rw [hcur] at hn; cases hn
    | some p =>
      rw [hcur] at hn
      have hp := hc.1 p hcur
      cases p with
      | ret r => cases hn
      | read x k => cases hn; exact hp.1
      | write x v k =>
        cases hn
        rcases hp.1 with ⟨_, f⟩ | hj
        · exact f.elim
        · exact hj
      | ext f a k => cases hn; exact hp.1
  have ka := key t _ a (h t) ha
  have kb := key u _ b (h u) hb
  cases a <;> cases b <;> simp only [Conflict] <;> try exact fun f => f
  · -- rd / wr
    rintro rfl
    obtain ⟨j, hj⟩ := kb
    rcases ka with hs | ⟨j', hj'⟩
    · subst hj; simp [Loc.shared] at hs
    · rw [hj] at hj'; cases hj'; exact htu rfl
  · -- wr / rd
    rintro rfl
    obtain ⟨j, hj⟩ := ka
    rcases kb with hs | ⟨j', hj'⟩
    · subst hj; simp [Loc.shared] at hs
    · rw [hj] at hj'; cases hj'; exact htu rfl
  · -- wr / wr
    rintro rfl
    obtain ⟨j, hj⟩ := ka
    obtain ⟨j', hj'⟩ := kb
    rw [hj] at hj'; cases hj'; exact htu rfl
  · -- ex / ex
    exact fun hn => hn ⟨hX _ ka, hX _ kb⟩

/-! ### a call alone is `Prog.run` (links the thread semantics to `step` of C16) -/

/-- number of atomic steps of a call in a given state (start + accesses + return) -/
def Prog.steps (E : Ext) : Prog → State → Nat
  | .ret _, _ => 1
  | .read x k, s => (k (s.get x)).steps E s + 1
  | .write x v k, s => k.steps E (s.set x v) + 1
  | .ext f a k, s => (k (E.run f a s.sh).1).steps E { s with sh := (E.run f a s.sh).2 } + 1

theorem solo_add (E : Ext) : ∀ (n m : Nat) (t : Thread) (s : State),
    solo E t s (n + m) = solo E (solo E t s n).1 (solo E t s n).2 m
  | 0, m, t, s => by simp [solo]
  | n + 1, m, t, s => by
      have : n + 1 + m = (n + m) + 1 := by omega
      rw [this]; simp only [solo]; exact solo_add E n m _ _

/-- a thread in the middle of call `p` finishes it in `p.steps` steps with the result and state of `Prog.run` -/
theorem solo_cur (E : Ext) : ∀ (p : Prog) (ps : List Prog) (d : List Val) (s : State),
    solo E ⟨some p, ps, d⟩ s (p.steps E s) = (⟨none, ps, d ++ [(p.run E s).1]⟩, (p.run E s).2)
  | .ret r, ps, d, s => rfl
  | .read x k, ps, d, s => by
      simp only [Prog.steps, Prog.run]
      rw [show (k (s.get x)).steps E s + 1 = 1 + (k (s.get x)).steps E s by omega, solo_add]
      exact solo_cur E (k (s.get x)) ps d s
  | .write x v k, ps, d, s => by
      simp only [Prog.steps, Prog.run]
      rw [show k.steps E (s.set x v) + 1 = 1 + k.steps E (s.set x v) by omega, solo_add]
      exact solo_cur E k ps d (s.set x v)
  | .ext f a k, ps, d, s => by
      simp only [Prog.steps, Prog.run]
      rw [show ∀ n, n + 1 = 1 + n by omega, solo_add]
      exact solo_cur E (k (E.run f a s.sh).1) ps d _

/-- CALL ALONE: an idle thread whose next call is `p` performs it in `p.steps + 1` steps and records exactly
`(p.run E s).1` — the result of C16's `step` — leaving the state `(p.run E s).2` -/
theorem solo_call (E : Ext) (p : Prog) (ps : List Prog) (d : List Val) (s : State) :
    solo E ⟨none, p :: ps, d⟩ s (1 + p.steps E s) = (⟨none, ps, d ++ [(p.run E s).1]⟩, (p.run E s).2) := by
  rw [solo_add]; exact solo_cur E p ps d s

end XrlSched
