/-
The `setlocale` protocol of the parser (src/xraylib-parser.c, CompoundParser).  Until /repo commit cc18f9b:

    backup_locale = setlocale(LC_NUMERIC, "C");   …strtod…   setlocale(LC_NUMERIC, backup_locale);      -- not restoring

since then:  backup_locale = xrl_strdup(setlocale(LC_NUMERIC, NULL)); setlocale(LC_NUMERIC, "C"); … ; setlocale(LC_NUMERIC,
backup_locale); free(backup_locale);                                                                  -- restoring

The sequence of setlocale calls of every function is EXTRACTED from the AST on every run
(`Gen.localeProtocols`); this file gives it a meaning (POSIX/glibc: `setlocale(cat, NULL)` returns the current
locale name, `setlocale(cat, name)` installs `name` and returns the NEW name), a symbolic evaluator that the
kernel can run on the extracted protocol, and the proof that the symbolic answer is the concrete one for every
initial locale.  Core-only.
-/
import XrlSched.Hand.Footprint
import XrlSched.Hand.Step
set_option linter.unusedSimpArgs false
namespace XrlSched

/-- glibc: `LC_NUMERIC` is category 1 (`<bits/locale.h>`) -/
def LC_NUMERIC : Nat := 1

/-- k-th element with default (own definition: two equations the proofs below unfold) -/
def nthD {α : Type} (d : α) : List α → Nat → α
  | [], _ => d
  | x :: _, 0 => x
  | _ :: xs, k + 1 => nthD d xs k

structure LState where
  cur  : Nat         -- current LC_NUMERIC locale name (encoded)
  rets : List Nat    -- values returned by the setlocale calls so far

/-- `other`: the value of an argument the extractor could not classify -/
def LocaleOp.exec (other : Nat) : LocaleOp → LState → LState
  | .query _, s => ⟨s.cur, s.rets ++ [s.cur]⟩
  | .setLit _ n, s => ⟨n, s.rets ++ [n]⟩
  | .setRet _ k, s => ⟨nthD other s.rets k, s.rets ++ [nthD other s.rets k]⟩
  | .setOther _, s => ⟨other, s.rets ++ [other]⟩

def execOps (other : Nat) (ops : List LocaleOp) (s : LState) : LState := ops.foldl (fun s op => op.exec other s) s

/-- the locale after the calls `ops`, started in locale `l` -/
def execLocale (other : Nat) (ops : List LocaleOp) (l : Nat) : Nat := (execOps other ops ⟨l, []⟩).cur

/-! ### symbolic evaluation -/

inductive Sym where
  | init            -- the locale the process had before the first call
  | lit (n : Nat)
  | unknown
  deriving DecidableEq, Repr

def Sym.den (l other : Nat) : Sym → Nat
  | .init => l
  | .lit n => n
  | .unknown => other

structure SState where
  cur  : Sym
  rets : List Sym

def LocaleOp.sym : LocaleOp → SState → SState
  | .query _, s => ⟨s.cur, s.rets ++ [s.cur]⟩
  | .setLit _ n, s => ⟨.lit n, s.rets ++ [.lit n]⟩
  | .setRet _ k, s => ⟨nthD .unknown s.rets k, s.rets ++ [nthD .unknown s.rets k]⟩
  | .setOther _, s => ⟨.unknown, s.rets ++ [.unknown]⟩

def symOps (ops : List LocaleOp) (s : SState) : SState := ops.foldl (fun s op => op.sym s) s
def symFinal (ops : List LocaleOp) : Sym := (symOps ops ⟨.init, []⟩).cur

def SState.den (l other : Nat) (s : SState) : LState := ⟨s.cur.den l other, s.rets.map (Sym.den l other)⟩

@[simp] theorem Sym.den_init (l other : Nat) : Sym.init.den l other = l := rfl
@[simp] theorem Sym.den_lit (l other n : Nat) : (Sym.lit n).den l other = n := rfl
@[simp] theorem Sym.den_unknown (l other : Nat) : Sym.unknown.den l other = other := rfl

theorem nthD_map_den (l other : Nat) (rs : List Sym) (k : Nat) :
    nthD other (rs.map (Sym.den l other)) k = (nthD .unknown rs k).den l other := by
  induction rs generalizing k with
  | nil => rfl
  | cons r rs ih => cases k with
    | zero => rfl
    | succ k => exact ih k

theorem LocaleOp.exec_den (l other : Nat) (op : LocaleOp) (s : SState) :
    op.exec other (s.den l other) = (op.sym s).den l other := by
  cases op <;> simp [LocaleOp.exec, LocaleOp.sym, SState.den, nthD_map_den]

theorem execOps_den (l other : Nat) (ops : List LocaleOp) (s : SState) :
    execOps other ops (s.den l other) = (symOps ops s).den l other := by
  induction ops generalizing s with
  | nil => rfl
  | cons op ops ih => simp only [execOps, symOps, List.foldl_cons] at *; rw [LocaleOp.exec_den]; exact ih _

/-- SIMULATION: for every initial locale the concrete final locale is the denotation of the symbolic one -/
theorem execLocale_eq_sym (l other : Nat) (ops : List LocaleOp) :
    execLocale other ops l = (symFinal ops).den l other := by
  have := execOps_den l other ops ⟨.init, []⟩
  simp only [SState.den, List.map_nil, Sym.den_init] at this
  simp [execLocale, symFinal, this]

def LocaleOp.cat : LocaleOp → Nat
  | .query c | .setLit c _ | .setRet c _ | .setOther c => c

/-- a protocol the model can speak about: straight-line, LC_NUMERIC only -/
def LocaleProto.simple (p : LocaleProto) : Bool := !p.complex && p.ops.all (fun o => o.cat == LC_NUMERIC)

/-- the kernel-decidable verdict: the calls put back the locale they found -/
def LocaleProto.restoring (p : LocaleProto) : Bool := p.simple && decide (symFinal p.ops = .init)

theorem restoring_sound {p : LocaleProto} (h : p.restoring = true) (other l : Nat) : execLocale other p.ops l = l := by
  simp only [LocaleProto.restoring, Bool.and_eq_true, decide_eq_true_eq] at h
  rw [execLocale_eq_sym, h.2]; rfl

theorem not_restoring_lit {ops : List LocaleOp} {n : Nat} (h : symFinal ops = .lit n) (other l : Nat) :
    execLocale other ops l = n := by
  rw [execLocale_eq_sym, h]; rfl

/-! ### the protocol inside the step semantics -/

/-- encoded name of the external function `setlocale` -/
def SETLOCALE : Nat := nm! "setlocale"

/-- the protocol as a program: `ext SETLOCALE 0` is `setlocale(LC_NUMERIC, NULL)`, `ext SETLOCALE (n+1)` is
`setlocale(LC_NUMERIC, <name n>)`.  Everything else a parser call does is irrelevant to the locale. -/
def danceProg (other : Nat) : List LocaleOp → List Nat → Prog
  | [], _ => .ret 0
  | .query _ :: ops, rets => .ext SETLOCALE 0 (fun v => danceProg other ops (rets ++ [v]))
  | .setLit _ n :: ops, rets => .ext SETLOCALE (n + 1) (fun v => danceProg other ops (rets ++ [v]))
  | .setRet _ k :: ops, rets => .ext SETLOCALE (nthD other rets k + 1) (fun v => danceProg other ops (rets ++ [v]))
  | .setOther _ :: ops, rets => .ext SETLOCALE (other + 1) (fun v => danceProg other ops (rets ++ [v]))

/-- external functions as glibc implements them, as far as the shared state is concerned: `setlocale` as above,
every other function leaves the shared state alone and returns a value determined by its argument -/
def glibcExt : Ext where
  run f a sh :=
    if f = SETLOCALE then
      match a with
      | 0 => (sh.locale, sh)
      | n + 1 => (n, { sh with locale := n })
    else (f + a, sh)

theorem glibc_query (sh : Shared) : glibcExt.run SETLOCALE 0 sh = (sh.locale, sh) := by simp [glibcExt]
theorem glibc_set (n : Nat) (sh : Shared) : glibcExt.run SETLOCALE (n + 1) sh = (n, { sh with locale := n }) := by
  simp [glibcExt]

theorem glibcExt_respects_locale (X : Nat → Prop) : glibcExt.Respects (fun x => x = .locale) X := by
  intro f _ a sh x hs hW
  simp only [glibcExt]
  split
  · cases a with
    | zero => rfl
    | succ n => cases x <;> simp_all [Shared.get]
  · rfl

theorem glibcExt_respects_pure {X : Nat → Prop} (hX : ∀ f, X f → f ≠ SETLOCALE) :
    glibcExt.Respects (fun _ => False) X := by
  intro f hf a sh x _ _
  simp [glibcExt, hX f hf]

theorem danceProg_conf (o other : Nat) (X : Nat → Prop) (hX : X SETLOCALE) :
    ∀ (ops : List LocaleOp) (rets : List Nat), (danceProg other ops rets).Conf o (fun x => x = .locale) X
  | [], _ => trivial
  | .query _ :: ops, _ => ⟨hX, fun _ => danceProg_conf o other X hX ops _⟩
  | .setLit _ _ :: ops, _ => ⟨hX, fun _ => danceProg_conf o other X hX ops _⟩
  | .setRet _ _ :: ops, _ => ⟨hX, fun _ => danceProg_conf o other X hX ops _⟩
  | .setOther _ :: ops, _ => ⟨hX, fun _ => danceProg_conf o other X hX ops _⟩

/-- running the protocol program under `glibcExt` computes `execOps` on the locale and touches nothing else -/
theorem danceProg_run (other : Nat) : ∀ (ops : List LocaleOp) (rets : List Nat) (s : State),
    ((danceProg other ops rets).run glibcExt s).2 =
      { s with sh := { s.sh with locale := (execOps other ops ⟨s.sh.locale, rets⟩).cur } }
  | [], _, _ => rfl
  | .query _ :: ops, rets, s => by
      simp only [danceProg, Prog.run, glibc_query, glibc_set]
      rw [danceProg_run other ops]; rfl
  | .setLit _ n :: ops, rets, s => by
      simp only [danceProg, Prog.run, glibc_query, glibc_set]
      rw [danceProg_run other ops]; rfl
  | .setRet _ k :: ops, rets, s => by
      simp only [danceProg, Prog.run, glibc_query, glibc_set]
      rw [danceProg_run other ops]; rfl
  | .setOther _ :: ops, rets, s => by
      simp only [danceProg, Prog.run, glibc_query, glibc_set]
      rw [danceProg_run other ops]; rfl

/-- the query `setlocale(LC_NUMERIC, NULL)` as a call: a legitimate observer of the process state -/
def localeQuery : Prog := .ext SETLOCALE 0 .ret

theorem localeQuery_run (s : State) : (localeQuery.run glibcExt s).1 = s.sh.locale := by
  simp [localeQuery, Prog.run, glibc_query]

end XrlSched
