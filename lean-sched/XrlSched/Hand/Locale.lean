/-
The `setlocale` protocol of the parser (src/xraylib-parser.c, CompoundParser).  Until /repo commit cc18f9b:

    backup_locale = setlocale(LC_NUMERIC, "C");   …strtod…   setlocale(LC_NUMERIC, backup_locale);      -- not restoring

since then:  backup_locale = xrl_strdup(setlocale(LC_NUMERIC, NULL)); setlocale(LC_NUMERIC, "C"); … ; setlocale(LC_NUMERIC,
backup_locale); free(backup_locale);                                                                  -- restoring

The sequence of setlocale calls of every function is EXTRACTED from the AST on every run
(`Gen.localeProtocols`); this file gives it a meaning (POSIX/glibc: `setlocale(cat, NULL)` returns the current
locale name, `setlocale(cat, name)` installs `name` and returns the NEW name), a symbolic evaluator that the
kernel can run on the extracted protocol, and the proof that the symbolic answer is the concrete one for every
initial locale.  Core-only.
-/
import XrlSched.Hand.Footprint
import XrlSched.Hand.Step
set_option linter.unusedSimpArgs false
namespace XrlSched

/-- glibc: `LC_NUMERIC` is category 1 (`<bits/locale.h>`) -/
def LC_NUMERIC : Nat := 1

/-- k-th element with default (own definition: two equations the proofs below unfold) -/
def nthD {α : Type} (d : α) : List α → Nat → α
  | [], _ => d
  | x :: _, 0 => x
  | _ :: xs, k + 1 => nthD d xs k

structure LState where
  cur  : Nat         -- current LC_NUMERIC locale name (encoded)
  rets : List Nat    -- values returned by the setlocale calls so far

/-- `other`: the value of an argument the extractor could not classify -/
def LocaleOp.exec (other : Nat) : LocaleOp → LState → LState
  | .query _, s => ⟨s.cur, s.rets ++ [s.cur]⟩
  | .setLit _ n, s => ⟨n, s.rets ++ [n]⟩
  | .setRet _ k, s => ⟨nthD other s.rets k, s.rets ++ [nthD other s.rets k]⟩
  | .setOther _, s => ⟨other, s.rets ++ [other]⟩

def execOps (other : Nat) (ops : List LocaleOp) (s : LState) : LState := ops.foldl (fun s op => op.exec other s) s

/-- the locale after the calls `ops`, started in locale `l` -/
def execLocale (other : Nat) (ops : List LocaleOp) (l : Nat) : Nat := (execOps other ops ⟨l, []⟩).cur

/-! ### symbolic evaluation -/

inductive Sym where
  | init            -- the locale the process had before the first call
  | lit (n : Nat)
  | unknown
  deriving DecidableEq, Repr

def Sym.den (l other : Nat) : Sym → Nat
  | .init => l
  | .lit n => n
  | .unknown => other

structure SState where
  cur  : Sym
  rets : List Sym

def LocaleOp.sym : LocaleOp → SState → SState
  | .query _, s => ⟨s.cur, s.rets ++ [s.cur]⟩
  | .setLit _ n, s => ⟨.lit n, s.rets ++ [.lit n]⟩
  | .setRet _ k, s => ⟨nthD .unknown s.rets k, s.rets ++ [nthD .unknown s.rets k]⟩
  | .setOther _, s => ⟨.unknown, s.rets ++ [.unknown]⟩

def symOps (ops : List LocaleOp) (s : SState) : SState := ops.foldl (fun s op => op.sym s) s
def symFinal (ops : List LocaleOp) : Sym := (symOps ops ⟨.init, []⟩).cur

def SState.den (l other : Nat) (s : SState) : LState := ⟨s.cur.den l other, s.rets.map (Sym.den l other)⟩

@[simp] theorem Sym.den_init (l other : Nat) : Sym.init.den l other = l := rfl
@[simp] theorem Sym.den_lit (l other n : Nat) : (Sym.lit n).den l other = n := rfl
@[simp] theorem Sym.den_unknown (l other : Nat) : Sym.unknown.den l other = other := rfl

theorem nthD_map_den (l other : Nat) (rs : List Sym) (k : Nat) :
    nthD other (rs.map (Sym.den l other)) k = (nthD .unknown rs k).den l other := by
  induction rs generalizing k with
  | nil => rfl
  | cons r rs ih => cases k with
    | zero => rfl
    | succ k => exact ih k

theorem LocaleOp.exec_den (l other : Nat) (op : LocaleOp) (s : SState) :
    op.exec other (s.den l other) = (op.sym s).den l other := by
  cases op <;> simp [LocaleOp.exec, LocaleOp.sym, SState.den, nthD_map_den]

theorem execOps_den (l other : Nat) (ops : List LocaleOp) (s : SState) :
    execOps other ops (s.den l other) = (symOps ops s).den l other := by
  induction ops generalizing s with
  | nil => rfl
  | cons op ops ih => simp only [execOps, symOps, List.foldl_cons] at *; rw [LocaleOp.exec_den]; exact ih _

/-- SIMULATION: for every initial locale the concrete final locale is the denotation of the symbolic one -/
theorem execLocale_eq_sym (l other : Nat) (ops : List LocaleOp) :
    execLocale other ops l = (symFinal ops).den l other := by
  have := execOps_den l other ops ⟨.init, []⟩
  simp only [SState.den, List.map_nil, Sym.den_init] at this
  simp [execLocale, symFinal, this]

def LocaleOp.cat : LocaleOp → Nat
  | .query c | .setLit c _ | .setRet c _ | .setOther c => c

/-- a protocol the model can speak about: straight-line, LC_NUMERIC only -/
def LocaleProto.simple (p : LocaleProto) : Bool := !p.complex && p.ops.all (fun o => o.cat == LC_NUMERIC)

/-- the kernel-decidable verdict: the calls put back the locale they found -/
def LocaleProto.restoring (p : LocaleProto) : Bool := p.simple && decide (symFinal p.ops = .init)

theorem restoring_sound {p : LocaleProto} (h : p.restoring = true) (other l : Nat) : execLocale other p.ops l = l := by
  simp only [LocaleProto.restoring, Bool.and_eq_true, decide_eq_true_eq] at h
  rw [execLocale_eq_sym, h.2]; rfl

theorem not_restoring_lit {ops : List LocaleOp} {n : Nat} (h : symFinal ops = .lit n) (other l : Nat) :
    execLocale other ops l = n := by
  rw [execLocale_eq_sym, h]; rfl

/-! ### the protocol inside the step semantics -/

/-- encoded name of the external function `setlocale` -/
def SETLOCALE : Nat := nm! "setlocale"

/-- the protocol as a program: `ext SETLOCALE 0` is `setlocale(LC_NUMERIC, NULL)`, `ext SETLOCALE (n+1)` is
`setlocale(LC_NUMERIC, <name n>)`.  Everything else a parser call does is irrelevant to the locale. -/
def danceProg (other : Nat) : List LocaleOp → List Nat → Prog
  | [], _ => .ret 0
  | .query _ :: ops, rets => .ext SETLOCALE 0 (fun v => danceProg other ops (rets ++ [v]))
  | .setLit _ n :: ops, rets => .ext SETLOCALE (n + 1) (fun v => danceProg other ops (rets ++ [v]))
  | .setRet _ k :: ops, rets => .ext SETLOCALE (nthD other rets k + 1) (fun v => danceProg other ops (rets ++ [v]))
  | .setOther _ :: ops, rets => .ext SETLOCALE (other + 1) (fun v => danceProg other ops (rets ++ [v]))

/-- external functions as glibc implements them, as far as the shared state is concerned: `setlocale` as above,
every other function leaves the shared state alone and returns a value determined by its argument -/
def glibcExt : Ext where
  run f a sh :=
    if f = SETLOCALE then
      match a with
      | 0 => (sh.locale, sh)
      | n + 1 => (n, { sh with locale := n })
    else (f + a, sh)

theorem glibc_query (sh : Shared) : glibcExt.run SETLOCALE 0 sh = (sh.locale, sh) := by simp [glibcExt]
theorem glibc_set (n : Nat) (sh : Shared) : glibcExt.run SETLOCALE (n + 1) sh = (n, { sh with locale := n }) := by
  simp [glibcExt]

theorem glibcExt_respects_locale (X : Nat → Prop) : glibcExt.Respects (fun x => x = .locale) X := by
  intro f _ a sh x hs hW
  simp only [glibcExt]
  split
  · cases a with
    | zero => rfl
    | succ n => cases x <;> simp_all [Shared.get]
  · rfl

theorem glibcExt_respects_pure {X : Nat → Prop} (hX : ∀ f, X f → f ≠ SETLOCALE) :
    glibcExt.Respects (fun _ => False) X := by
  intro f hf a sh x _ _
  simp [glibcExt, hX f hf]

theorem danceProg_conf (o other : Nat) (X : Nat → Prop) (hX : X SETLOCALE) :
    ∀ (ops : List LocaleOp) (rets : List Nat), (danceProg other ops rets).Conf o (fun x => x = .locale) X
  | [], _ => trivial
  | .query _ :: ops, _ => ⟨hX, fun _ => danceProg_conf o other X hX ops _⟩
  | .setLit _ _ :: ops, _ => ⟨hX, fun _ => danceProg_conf o other X hX ops _⟩
  | .setRet _ _ :: ops, _ => ⟨hX, fun _ => danceProg_conf o other X hX ops _⟩
  | .setOther _ :: ops, _ => ⟨hX, fun _ => danceProg_conf o other X hX ops _⟩

/-- running the protocol program under `glibcExt` computes `execOps` on the locale and touches nothing else -/
theorem danceProg_run (other : Nat) : ∀ (ops : List LocaleOp) (rets : List Nat) (s : State),
    ((danceProg other ops rets).run glibcExt s).2 =
      { s with sh := { s.sh with locale := (execOps other ops ⟨s.sh.locale, rets⟩).cur } }
  | [], _, _ => rfl
  | .query _ :: ops, rets, s => by
      simp only [danceProg, Prog.run, glibc_query, glibc_set]
      rw [danceProg_run other ops]; rfl
  | .setLit _ n :: ops, rets, s => by
      simp only [danceProg, Prog.run, glibc_query, glibc_set]
      rw [danceProg_run other ops]; rfl
  | .setRet _ k :: ops, rets, s => by
      simp only [danceProg, Prog.run, glibc_query, glibc_set]
      rw [danceProg_run other ops]; rfl
  | .setOther _ :: ops, rets, s => by
      simp only [danceProg, Prog.run, glibc_query, glibc_set]
      rw [danceProg_run other ops]; rfl

/-! ### the locale DISCIPLINE of an arbitrary call (lifts `danceProg_run` to every program)

A call of the parser family does much more than call `setlocale`; what matters for the locale is only the sequence of
its `setlocale` calls.  `Prog.Follows other Ps p cur rets`: every `setlocale` call of `p` is the next call of one of the
extracted protocols `Ps` (`cur` = calls still due in the protocol run in progress, `rets` = values returned in that run;
`cur = []` = no run in progress), a call returns only between runs, and runs may repeat (a `_CP` function parses zero,
one or several formulas).  The arguments are the ones the protocol prescribes: NULL, a literal, or a value returned
earlier in the same run. -/

/-- the argument of the external call `setlocale` that the protocol step prescribes (0 = NULL, n+1 = name n) -/
def LocaleOp.arg (other : Nat) (rets : List Nat) : LocaleOp → Nat
  | .query _ => 0
  | .setLit _ n => n + 1
  | .setRet _ k => nthD other rets k + 1
  | .setOther _ => other + 1

def Prog.Follows (other : Nat) (Ps : List (List LocaleOp)) : Prog → List LocaleOp → List Nat → Prop
  | .ret _, cur, _ => cur = []
  | .read _ k, cur, rets => ∀ v, (k v).Follows other Ps cur rets
  | .write _ _ k, cur, rets => k.Follows other Ps cur rets
  | .ext f a k, cur, rets =>
      (f = SETLOCALE →
        match cur with
        | op :: cur' => a = op.arg other rets ∧ ∀ v, (k v).Follows other Ps cur' (rets ++ [v])
        | [] => ∃ op cur', (op :: cur') ∈ Ps ∧ a = op.arg other [] ∧ ∀ v, (k v).Follows other Ps cur' [v])
      ∧ (f ≠ SETLOCALE → ∀ v, (k v).Follows other Ps cur rets)

theorem execOps_append (other : Nat) (a b : List LocaleOp) (s : LState) :
    execOps other (a ++ b) s = execOps other b (execOps other a s) := by
  simp [execOps, List.foldl_append]

/-- one protocol step against glibc's `setlocale`: the model's `exec` is what the library call does -/
theorem LocaleOp.exec_glibc (other : Nat) (op : LocaleOp) (rets : List Nat) (sh : Shared) :
    op.exec other ⟨sh.locale, rets⟩ =
      ⟨(glibcExt.run SETLOCALE (op.arg other rets) sh).2.locale, rets ++ [(glibcExt.run SETLOCALE (op.arg other rets) sh).1]⟩ := by
  cases op <;> simp [LocaleOp.exec, LocaleOp.arg, glibc_query, glibc_set]

/-- the protocol program follows its own protocol: from the middle of a run … -/
theorem danceProg_follows (other : Nat) (Ps : List (List LocaleOp)) :
    ∀ (ops : List LocaleOp) (rets : List Nat), (danceProg other ops rets).Follows other Ps ops rets
  | [], _ => rfl
  | .query _ :: ops, _ => ⟨fun _ => ⟨rfl, fun _ => danceProg_follows other Ps ops _⟩, fun h => absurd rfl h⟩
  | .setLit _ _ :: ops, _ => ⟨fun _ => ⟨rfl, fun _ => danceProg_follows other Ps ops _⟩, fun h => absurd rfl h⟩
  | .setRet _ _ :: ops, _ => ⟨fun _ => ⟨rfl, fun _ => danceProg_follows other Ps ops _⟩, fun h => absurd rfl h⟩
  | .setOther _ :: ops, _ => ⟨fun _ => ⟨rfl, fun _ => danceProg_follows other Ps ops _⟩, fun h => absurd rfl h⟩

/-- … and from outside a run, when the protocol is one of `Ps` -/
theorem danceProg_follows_idle (other : Nat) (Ps : List (List LocaleOp)) (ops : List LocaleOp) (h : ops ∈ Ps) :
    (danceProg other ops []).Follows other Ps [] [] := by
  cases ops with
  | nil => rfl
  | cons op ops =>
    cases op <;>
      exact ⟨fun _ => ⟨_, ops, h, rfl, fun _ => danceProg_follows other Ps ops _⟩, fun hn => absurd rfl hn⟩

/-- LOCALE DISCIPLINE ⇒ LOCALE RESTORED.  `E`: `setlocale` as glibc implements it, every other admitted function leaves
the locale alone.  A call that writes no shared object itself (read-only footprint) and follows protocols that all restore
the locale they find leaves the process locale exactly as it found it — whatever else it does. -/
theorem Prog.follows_locale {E : Ext} {o other : Nat} {X : Nat → Prop} {Ps : List (List LocaleOp)}
    (hset : ∀ a sh, E.run SETLOCALE a sh = glibcExt.run SETLOCALE a sh)
    (hE : ∀ f, X f → f ≠ SETLOCALE → ∀ a sh, (E.run f a sh).2.locale = sh.locale)
    (hPs : ∀ P ∈ Ps, ∀ l, execLocale other P l = l) (l0 : Nat) :
    ∀ (p : Prog) (cur : List LocaleOp) (rets : List Nat) (s : State),
      p.Conf o (fun _ => False) X → p.Follows other Ps cur rets →
      ((cur = [] ∧ s.sh.locale = l0) ∨
        ∃ P ∈ Ps, ∃ done, done ++ cur = P ∧ execOps other done ⟨l0, []⟩ = ⟨s.sh.locale, rets⟩) →
      (p.run E s).2.sh.locale = l0
  | .ret _, cur, rets, s, _, hf, hinv => by
      simp only [Prog.run]
      have hcur : cur = [] := hf
      rcases hinv with ⟨_, h⟩ | ⟨P, hP, done, hd, he⟩
      · exact h
      · subst hcur
        simp only [List.append_nil] at hd; subst hd
        have := hPs _ hP l0
        simp only [execLocale, he] at this
        exact this
  | .read x k, cur, rets, s, hc, hf, hinv => by
      simp only [Prog.run]
      exact Prog.follows_locale hset hE hPs l0 (k (s.get x)) cur rets s (hc.2 _) (hf _) hinv
  | .write x v k, cur, rets, s, hc, hf, hinv => by
      simp only [Prog.run]
      have hsh : (s.set x v).sh = s.sh := by
        rcases hc.1 with ⟨_, f⟩ | ⟨j, rfl⟩
        · exact f.elim
        · rfl
      refine Prog.follows_locale hset hE hPs l0 k cur rets (s.set x v) hc.2 hf ?_
      rw [hsh]; exact hinv
  | .ext f a k, cur, rets, s, hc, hf, hinv => by
      simp only [Prog.run]
      by_cases hfs : f = SETLOCALE
      · subst hfs
        have hf1 := hf.1 rfl
        rw [hset]
        -- the locale the run in progress started from is l0, and (done, cur) describe where it stands
        cases cur with
        | cons op cur' =>
          obtain ⟨ha, hk⟩ := hf1
          rcases hinv with ⟨h, _⟩ | ⟨P, hP, done, hd, he⟩
          · cases h
          · subst ha
            refine Prog.follows_locale hset hE hPs l0 _ cur' _ _ (hc.2 _) (hk _) (Or.inr ⟨P, hP, done ++ [op], by simpa using hd, ?_⟩)
            rw [execOps_append, he]
            simp only [execOps, List.foldl_cons, List.foldl_nil]
            exact LocaleOp.exec_glibc other op rets s.sh
        | nil =>
          obtain ⟨op, cur', hP, ha, hk⟩ := hf1
          have hl : s.sh.locale = l0 := by
            rcases hinv with ⟨_, h⟩ | ⟨P, hP', done, hd, he⟩
            · exact h
            · simp only [List.append_nil] at hd; subst hd
              have := hPs _ hP' l0
              simp only [execLocale, he] at this
              exact this
          subst ha
          refine Prog.follows_locale hset hE hPs l0 _ cur' _ _ (hc.2 _) (hk _) (Or.inr ⟨op :: cur', hP, [op], rfl, ?_⟩)
          simp only [execOps, List.foldl_cons, List.foldl_nil]
          rw [← hl]
          have := LocaleOp.exec_glibc other op [] s.sh
          simpa using this
      · have hk := hf.2 hfs
        refine Prog.follows_locale hset hE hPs l0 _ cur rets _ (hc.2 _) (hk _) ?_
        have hl : (E.run f a s.sh).2.locale = s.sh.locale := hE f hc.1 hfs a s.sh
        simp only [hl]
        exact hinv

/-- the query `setlocale(LC_NUMERIC, NULL)` as a call: a legitimate observer of the process state -/
def localeQuery : Prog := .ext SETLOCALE 0 .ret

theorem localeQuery_run (s : State) : (localeQuery.run glibcExt s).1 = s.sh.locale := by
  simp [localeQuery, Prog.run, glibc_query]

end XrlSched
