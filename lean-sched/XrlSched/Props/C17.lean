/-
C17 — concurrent queries from many threads are race-free and agree with serial results.

Property theorems only; the interleaving semantics is Hand/Sched.lean, the footprint facts come from
Props/C16.lean (`pure_footprint`, `readonly_footprint`) over the table regenerated from /repo on every run.

What the model cannot exhibit (level_note): the memory model of hardware and compiler — every access is one
atomic, sequentially consistent step here — and races inside libc: an external call is one atomic step and its
MT-safety is taken from the table below (DESIGN §6), not proved.
-/
import XrlSched.Props.C16
import XrlSched.Hand.Sched
namespace XrlSched.C17
open XrlSched XrlSched.C16

/-! ## MT-safety table (DESIGN §6; POSIX.1-2017 §2.9.1 and the glibc manual's safety annotations) -/

/-- MT-Safe: libm; the malloc family and `vasprintf`; `qsort`/`bsearch`/`lfind` on data no other thread writes;
`strtod` and the `<ctype.h>` table ("MT-Safe locale": safe as long as nobody calls `setlocale` concurrently);
`str*`/`mem*` on private buffers; `fprintf(stderr)` (stream-locked); `strerror` (MT-Safe in glibc ≥ 2.32, reached
only on allocation/IO failure); `errno` is thread-local. -/
def mtSafe : List Nat := [
  nm! "exp", nm! "log", nm! "log10", nm! "sqrt", nm! "pow", nm! "sin", nm! "cos", nm! "tan", nm! "asin", nm! "acos",
  nm! "atan", nm! "atan2", nm! "fabs", nm! "floor", nm! "ceil",
  nm! "malloc", nm! "calloc", nm! "realloc", nm! "free", nm! "strdup", nm! "strndup", nm! "vasprintf",
  nm! "qsort", nm! "bsearch", nm! "lfind",
  nm! "strcmp", nm! "strlen", nm! "memcpy", nm! "strtod", nm! "__ctype_b_loc",
  nm! "fprintf@stderr", nm! "strerror", nm! "__errno_location", nm! "__builtin_va_start", nm! "__builtin_va_end"]

/-- file input, reached only from `Crystal_ReadFile` (POSIX: the stdio functions lock the stream they are handed; every call
of `Crystal_ReadFile` opens its own `FILE`; `sscanf` is "MT-Safe locale") -/
def mtSafeFile : List Nat := [nm! "fopen", nm! "fclose", nm! "fgets", nm! "feof", nm! "fscanf", nm! "sscanf", nm! "fseek", nm! "ftell"]

/-- MT-Unsafe (POSIX: "const:locale env"): -/
def mtUnsafe : List Nat := [SETLOCALE]

def MtSafe (f : Nat) : Prop := f ∈ mtSafe

/-- every allow-listed external function of C16 is classified, and classified MT-Safe; the separately listed
process-global one is classified MT-Unsafe -/
theorem allow_list_classified :
    allowPure.all (fun x => mtSafe.contains x) = true ∧ processGlobal.all (fun x => mtUnsafe.contains x) = true
    ∧ mtSafe.all (fun x => !mtUnsafe.contains x) = true := by decide +kernel

theorem file_fns_classified :
    fileFns.all (fun x => mtSafeFile.contains x) = true ∧ mtSafeFile.all (fun x => !mtUnsafe.contains x) = true := by decide +kernel

/-- kernel-decided over the generated table: the external callees of everything reachable from a thread-safe
entry point that does not reach `setlocale` are MT-Safe (and nothing there writes a file-scope/static object) -/
theorem mt_safe_footprint_decided :
    withList pureEntries (fun es => checkEntries Gen.fns es noWrite (fun x => mtSafe.contains x)) = true := by
  decide +kernel

theorem mt_safe_footprint : ∀ e ∈ pureEntries, ∀ x, TransExts Gen.fns e x → MtSafe x := by
  intro e he x hx
  have hd := mt_safe_footprint_decided
  rw [withList_eq] at hd
  have := checkEntries_exts hd he hx
  exact List.contains_iff_mem.mp this

/-! ## the two theorems over the schedule model (general form) -/

/-- RACE_FREE.  Hypothesis, as in the property text: every shared access of every running call is a read or
targets memory owned by the calling thread (`Config.Conf` with the empty write set), and every external callee is
MT-Safe.  Then after ANY schedule no two threads are ever about to perform conflicting accesses. -/
theorem race_free (E : Ext) (X : Nat → Prop) (hX : ∀ f, X f → MtSafe f) (c₀ : Config)
    (hc : c₀.Conf (fun _ => False) X) (σ : List Nat) (t u : Nat) (htu : t ≠ u) (a b : Access)
    (ha : ((runSched E c₀ σ).th t).next = some a) (hb : ((runSched E c₀ σ).th u).next = some b) :
    ¬ Conflict MtSafe a b :=
  conf_no_conflict hX (runSched_conf σ hc) htu ha hb

/-- SERIAL_EQUIVALENCE.  Same hypothesis (plus: the admitted external functions leave the shared state alone).
After ANY schedule σ every thread is exactly where it is after running its own `σ.count t` steps alone from the
initial state — same call in progress, same remaining script, same list of results — and the shared state is the
initial one.  In particular every completed call returned what it returns alone (`solo_call`: a call alone is
`Prog.run`, the `step` of C16). -/
theorem serial_equivalence (E : Ext) (X : Nat → Prop) (hE : E.Respects (fun _ => False) X) (c₀ : Config)
    (hc : c₀.Conf (fun _ => False) X) (σ : List Nat) (t : Nat) :
    (runSched E c₀ σ).th t = (solo E (c₀.th t) c₀.st (σ.count t)).1
    ∧ ((runSched E c₀ σ).th t).done = (solo E (c₀.th t) c₀.st (σ.count t)).1.done
    ∧ (runSched E c₀ σ).st.sh = c₀.st.sh := by
  have h := (runSched_solo hE σ hc t).1
  exact ⟨h, by rw [h], runSched_shared hE σ hc⟩

/-! ## instantiation for the thread-safe API of xraylib -/

/-- thread `o` runs calls of the entry points `es`, each constrained only by that entry's transitive footprint -/
def ThreadOf (es : List Nat) (o : Nat) (t : Thread) : Prop :=
  (∀ p, t.cur = some p → ∃ e ∈ es, p.Conf o (fpW e) (fpX e)) ∧ ∀ p ∈ t.todo, ∃ e ∈ es, p.Conf o (fpW e) (fpX e)

theorem ThreadOf.conf {o : Nat} {t : Thread} (h : ThreadOf pureEntries o t) :
    t.Conf o (fun _ => False) (fun f => f ∈ allowPure ∧ MtSafe f) := by
  have key : ∀ p : Prog, (∃ e ∈ pureEntries, p.Conf o (fpW e) (fpX e)) → p.Conf o (fun _ => False) (fun f => f ∈ allowPure ∧ MtSafe f) := by
    rintro p ⟨e, he, hp⟩
    refine Prog.Conf.mono ?_ ?_ hp
    · rintro x ⟨w, ⟨i, f, hr, hf, hm⟩, _⟩
      obtain ⟨f', hf', hw, _⟩ := pure_footprint e he i hr
      rw [hf] at hf'; cases hf'; rw [hw] at hm; cases hm
    · intro x hx
      obtain ⟨i, f, hr, hf, hm⟩ := hx
      obtain ⟨f', hf', _, hxa⟩ := pure_footprint e he i hr
      rw [hf] at hf'; cases hf'
      exact ⟨hxa x hm, mt_safe_footprint e he x ⟨i, f, hr, hf, hm⟩⟩
  exact ⟨fun p hp => key p (h.1 p hp), fun p hp => key p (h.2 p hp)⟩

/-- RACE FREEDOM OF THE THREAD-SAFE API (every public entry point except the documented crystal-array mutators
and the parser family, which is the subject of the finding below) -/
theorem race_free_xraylib (E : Ext) (c₀ : Config) (hc : ∀ u, ThreadOf pureEntries u (c₀.th u))
    (σ : List Nat) (t u : Nat) (htu : t ≠ u) (a b : Access)
    (ha : ((runSched E c₀ σ).th t).next = some a) (hb : ((runSched E c₀ σ).th u).next = some b) :
    ¬ Conflict MtSafe a b :=
  race_free E _ (fun _ h => h.2) c₀ (fun u => (hc u).conf) σ t u htu a b ha hb

/-- SERIAL EQUIVALENCE OF THE THREAD-SAFE API.  Trusted hypothesis, named: the allow-listed libc/libm functions do
not change the library's tables, the crystal array or the locale. -/
theorem serial_equivalence_xraylib (E : Ext) (hE : E.Respects (fun _ => False) (fun f => f ∈ allowPure))
    (c₀ : Config) (hc : ∀ u, ThreadOf pureEntries u (c₀.th u)) (σ : List Nat) (t : Nat) :
    (runSched E c₀ σ).th t = (solo E (c₀.th t) c₀.st (σ.count t)).1
    ∧ ((runSched E c₀ σ).th t).done = (solo E (c₀.th t) c₀.st (σ.count t)).1.done
    ∧ (runSched E c₀ σ).st.sh = c₀.st.sh :=
  serial_equivalence E _ (fun f hf => hE f hf.1) c₀ (fun u => (hc u).conf) σ t

/-! ## crystal collections: thread-private arrays, a shared array that is only read, and the one case that needs locking -/

theorem ThreadOf.user_conf {o : Nat} {t : Thread} (h : ThreadOf userSafeEntries o t) :
    t.Conf o (fun _ => False) (fun f => f ∈ allowPure ∨ f ∈ fileFns) :=
  ⟨fun p hp => by obtain ⟨e, he, hc⟩ := h.1 p hp; exact CallOf.user_readonly (c := ⟨o, p⟩) ⟨e, he, hc⟩,
   fun p hp => by obtain ⟨e, he, hc⟩ := h.2 p hp; exact CallOf.user_readonly (c := ⟨o, p⟩) ⟨e, he, hc⟩⟩

/-- THREAD-PRIVATE MUTATORS ARE RACE-FREE.  Threads may mix the thread-safe queries with `Crystal_AddCrystal`,
`Crystal_ReadFile` and `Crystal_ArrayFree` on arrays of their OWN (array argument not NULL: the `@user` rows of the table,
`C16.user_mutator_footprint`): after any schedule no two threads are about to perform conflicting accesses.  No locking is
needed for that. -/
theorem race_free_private_arrays (E : Ext) (c₀ : Config) (hc : ∀ u, ThreadOf userSafeEntries u (c₀.th u))
    (σ : List Nat) (t u : Nat) (htu : t ≠ u) (a b : Access)
    (ha : ((runSched E c₀ σ).th t).next = some a) (hb : ((runSched E c₀ σ).th u).next = some b) :
    ¬ Conflict (fun f => MtSafe f ∨ f ∈ mtSafeFile) a b := by
  refine conf_no_conflict (X := fun f => f ∈ allowPure ∨ f ∈ fileFns) ?_ (runSched_conf σ (fun v => (hc v).user_conf)) htu ha hb
  rintro f (hf | hf)
  · exact Or.inl (List.contains_iff_mem.mp ((List.all_eq_true.mp allow_list_classified.1) f hf))
  · exact Or.inr (List.contains_iff_mem.mp ((List.all_eq_true.mp file_fns_classified.1) f hf))

theorem serial_equivalence_private_arrays (E : Ext)
    (hE : E.Respects (fun _ => False) (fun f => f ∈ allowPure ∨ f ∈ fileFns))
    (c₀ : Config) (hc : ∀ u, ThreadOf userSafeEntries u (c₀.th u)) (σ : List Nat) (t : Nat) :
    (runSched E c₀ σ).th t = (solo E (c₀.th t) c₀.st (σ.count t)).1
    ∧ ((runSched E c₀ σ).th t).done = (solo E (c₀.th t) c₀.st (σ.count t)).1.done
    ∧ (runSched E c₀ σ).st.sh = c₀.st.sh :=
  serial_equivalence E _ hE c₀ (fun u => (hc u).user_conf) σ t

/-- A SHARED USER ARRAY IS ONLY EVER READ by the thread-safe API: `Loc.userArr k` is a crystal array that the application
built and made visible to all threads.  Whatever the schedule, no thread running thread-safe calls (queries, lookups in that
array, mutators on arrays of its own) is ever about to write it … -/
theorem shared_user_array_only_read (E : Ext) (c₀ : Config) (hc : ∀ u, ThreadOf userSafeEntries u (c₀.th u))
    (σ : List Nat) (t k : Nat) : ((runSched E c₀ σ).th t).next ≠ some (.wr (.userArr k)) := by
  have hconf := (runSched_conf (E := E) σ (fun v => (hc v).user_conf)) t
  intro hn
  unfold Thread.next at hn
  cases hcur : ((runSched E c₀ σ).th t).cur with
  | none => rw [hcur] at hn; cases hn
  | some p =>
    rw [hcur] at hn
    have hp := hconf.1 p hcur
    cases p with
    | ret r => cases hn
    | read x k' => cases hn
    | ext f a k' => cases hn
    | write x v k' =>
      cases hn
      rcases hp.1 with ⟨_, f⟩ | ⟨j, hj⟩
      · exact f
      · cases hj

/-- … so concurrent readers of one shared array are race-free (this is `race_free_private_arrays`: reading a shared
location is within the footprint), every reader gets what it gets alone, and the array is what it was. -/
theorem shared_user_array_unchanged (E : Ext)
    (hE : E.Respects (fun _ => False) (fun f => f ∈ allowPure ∨ f ∈ fileFns))
    (c₀ : Config) (hc : ∀ u, ThreadOf userSafeEntries u (c₀.th u)) (σ : List Nat) :
    (runSched E c₀ σ).st.sh.user = c₀.st.sh.user := by
  rw [(serial_equivalence_private_arrays E hE c₀ hc σ 0).2.2]

/-! ## objects handed to a caller are the caller's alone ("errors are heap objects owned by the caller's slot") -/

/-- the one public function that MOVES an object from one parameter into another (ownership transfer, by design) -/
def moveFns : List Nat := [nm! "xrl_propagate_error"]

theorem handed_out_objects_fresh_decided :
    Gen.escapes.all (fun r => r.retFresh && !r.constWrite && (r.outFresh || moveFns.contains r.name)) = true := by
  decide +kernel

/-- the rows of `Gen.escapes` are exactly the public entry points (mutators included), one each, in the order of the entry lists -/
theorem escapes_cover_public : Gen.escapes.map (·.fn) = safeEntries ++ Gen.mutatorEntries ∧ Gen.escapes ≠ [] := by
  decide +kernel

/-- WHAT THE LIBRARY HANDS OUT IS FRESH AND UNSHARED.  For every public function (points-to summaries of tools/footprint.py over the
working tree): the object it returns, every heap block reachable from it, and everything it stores through a parameter — the error
object put into the caller's slot, out-parameters, entries added to an array — is memory allocated during that call, from which
neither the memory of the caller's ARGUMENTS nor any library object can be reached; and it never writes through a parameter
declared `const T *`.  So an error and its `xrl_error_copy`, a crystal and its `Crystal_MakeCopy`, two results of the same lookup
share no storage: threads that each handle their own objects touch disjoint memory (the owner partition assumed by `race_free`).
A copy that shares its text with the original through a reference count breaks this on two counts (`retFresh`, `constWrite`).
Exception, named: `xrl_propagate_error` moves its second argument into the slot. -/
theorem handed_out_objects_fresh : ∀ r ∈ Gen.escapes,
    r.retFresh = true ∧ r.constWrite = false ∧ (r.outFresh = true ∨ r.name ∈ moveFns) := by
  intro r hr
  have h := (List.all_eq_true.mp handed_out_objects_fresh_decided) r hr
  simp only [Bool.and_eq_true, Bool.or_eq_true, Bool.not_eq_true', List.contains_iff_mem] at h
  exact ⟨h.1.1, h.1.2, h.2⟩

/-- some of them do return pointers (the statement is not about an empty set of objects) -/
theorem some_entries_return_objects : (Gen.escapes.filter (·.ptrRet)).length ≥ 10 := by decide +kernel

/-! ## the parser family: `setlocale` -/

/-- a thread that only asks for the numeric locale next to a thread that runs the extracted setlocale protocol -/
def obsConfig (other l₀ : Nat) (ops : List LocaleOp) : Config where
  st := ⟨⟨fun _ => 0, 0, l₀, fun _ => 0⟩, fun _ _ => 0⟩
  th := fun u => if u = 0 then ⟨none, [danceProg other ops []], []⟩
                 else if u = 1 then ⟨none, [localeQuery], []⟩ else ⟨none, [], []⟩

def observed (other l₀ : Nat) (ops : List LocaleOp) (σ : List Nat) : List Val :=
  ((runSched glibcExt (obsConfig other l₀ ops) σ).th 1).done

def observedAlone (other l₀ : Nat) (ops : List LocaleOp) (σ : List Nat) : List Val :=
  (solo glibcExt ((obsConfig other l₀ ops).th 1) (obsConfig other l₀ ops).st (σ.count 1)).1.done

/-- FULL STATEMENT for the functions that call `setlocale`: a thread querying LC_NUMERIC concurrently with such a
call sees what it sees alone, for every initial locale and every schedule. -/
def serial_equivalence_full : Prop :=
  ∀ p ∈ Gen.localeProtocols, ∀ other l₀ σ, observed other l₀ p.ops σ = observedAlone other l₀ p.ops σ

/-- first literal a protocol switches to, and how many calls precede the switch -/
def firstLit : List LocaleOp → Option (Nat × Nat)
  | [] => none
  | .setLit _ n :: _ => some (0, n)
  | _ :: ops => (firstLit ops).map fun (k, n) => (k + 1, n)

/-- witness: initial locale `n+1 ≠ n`; thread 0 starts its call and performs the setlocale calls up to and
including the switch to `n`; then thread 1 starts, queries, returns -/
def exhibits (p : LocaleProto) : Bool :=
  match firstLit p.ops with
  | none => false
  | some (k, n) =>
    let σ := List.replicate (k + 2) 0 ++ [1, 1, 1]
    decide (observed 0 (n + 1) p.ops σ ≠ observedAlone 0 (n + 1) p.ops σ)

/-- kernel-evaluated on the extracted protocols (true on every tree): each protocol that switches the locale to a
literal exhibits a changed result under the witness schedule -/
theorem locale_witness_decided :
    Gen.localeProtocols.all (fun p => (firstLit p.ops).isNone || exhibits p) = true := by decide +kernel

/-- THE FULL STATEMENT FAILS as soon as some function of libxrl switches LC_NUMERIC to a literal locale (today:
CompoundParser, hence every _CP / Refractive_Index function): replayed on the real library by the check
(harness/c17_locale.c) and exhibited there as a ThreadSanitizer report. -/
theorem serial_equivalence_full_fails (h : ∃ p ∈ Gen.localeProtocols, (firstLit p.ops).isSome = true) :
    ¬ serial_equivalence_full := by
  obtain ⟨p, hp, hs⟩ := h
  intro hfull
  have hd := (List.all_eq_true.mp locale_witness_decided) p hp
  have hex : exhibits p = true := by
    cases hfl : firstLit p.ops with
    | none => rw [hfl] at hs; cases hs
    | some v => simpa [hfl] using hd
  unfold exhibits at hex
  cases hfl : firstLit p.ops with
  | none => rw [hfl] at hex; cases hex
  | some v =>
    obtain ⟨k, n⟩ := v
    rw [hfl] at hex
    simp only [decide_eq_true_eq] at hex
    exact hex (hfull p hp 0 (n + 1) _)

/-- PARTIAL STATEMENTS (all thread-safe entry points, parser family included).  Named hypotheses:
`hNoop` — every `setlocale` call the library makes leaves the process locale as it is (true exactly when
LC_NUMERIC is already "C" and no other thread changes it: glibc returns early when "changing to the same thing");
`hAtomic` — `setlocale(LC_NUMERIC, ·)` is atomic with respect to `strtod` and to itself.
They exclude exactly the witness set of `serial_equivalence_full_fails` (a process whose LC_NUMERIC is not "C",
or another thread using the locale API). -/
theorem serial_equivalence_partial (E : Ext)
    (hNoop : E.Respects (fun _ => False) (fun f => f ∈ allowPure ∨ f ∈ processGlobal))
    (c₀ : Config) (hc : ∀ u, ThreadOf safeEntries u (c₀.th u)) (σ : List Nat) (t : Nat) :
    (runSched E c₀ σ).th t = (solo E (c₀.th t) c₀.st (σ.count t)).1
    ∧ ((runSched E c₀ σ).th t).done = (solo E (c₀.th t) c₀.st (σ.count t)).1.done
    ∧ (runSched E c₀ σ).st.sh = c₀.st.sh := by
  refine serial_equivalence E _ hNoop c₀ (fun u => ?_) σ t
  have key : ∀ p : Prog, (∃ e ∈ safeEntries, p.Conf u (fpW e) (fpX e)) →
      p.Conf u (fun _ => False) (fun f => f ∈ allowPure ∨ f ∈ processGlobal) := by
    rintro p ⟨e, he, hp⟩
    refine Prog.Conf.mono ?_ ?_ hp
    · rintro x ⟨w, ⟨i, f, hr, hf, hm⟩, _⟩
      obtain ⟨f', hf', hw, _⟩ := readonly_footprint e he i hr
      rw [hf] at hf'; cases hf'; rw [hw] at hm; cases hm
    · rintro x ⟨i, f, hr, hf, hm⟩
      obtain ⟨f', hf', _, hxa⟩ := readonly_footprint e he i hr
      rw [hf] at hf'; cases hf'; exact hxa x hm
  exact ⟨fun p hp => key p ((hc u).1 p hp), fun p hp => key p ((hc u).2 p hp)⟩

theorem race_free_partial (E : Ext) (hAtomic : Nat → Prop) (hA : ∀ f, f ∈ processGlobal → hAtomic f)
    (c₀ : Config) (hc : ∀ u, ThreadOf safeEntries u (c₀.th u))
    (σ : List Nat) (t u : Nat) (htu : t ≠ u) (a b : Access)
    (ha : ((runSched E c₀ σ).th t).next = some a) (hb : ((runSched E c₀ σ).th u).next = some b) :
    ¬ Conflict (fun f => MtSafe f ∨ hAtomic f) a b := by
  refine conf_no_conflict (X := fun f => f ∈ allowPure ∨ f ∈ processGlobal) ?_ (runSched_conf σ (fun v => ?_)) htu ha hb
  · rintro f (hf | hf)
    · left
      have := (List.all_eq_true.mp allow_list_classified.1) f hf
      exact List.contains_iff_mem.mp this
    · exact Or.inr (hA f hf)
  · have key : ∀ p : Prog, (∃ e ∈ safeEntries, p.Conf v (fpW e) (fpX e)) →
        p.Conf v (fun _ => False) (fun f => f ∈ allowPure ∨ f ∈ processGlobal) := by
      rintro p ⟨e, he, hp⟩
      refine Prog.Conf.mono ?_ ?_ hp
      · rintro x ⟨w, ⟨i, f, hr, hf, hm⟩, _⟩
        obtain ⟨f', hf', hw, _⟩ := readonly_footprint e he i hr
        rw [hf] at hf'; cases hf'; rw [hw] at hm; cases hm
      · rintro x ⟨i, f, hr, hf, hm⟩
        obtain ⟨f', hf', _, hxa⟩ := readonly_footprint e he i hr
        rw [hf] at hf'; cases hf'; exact hxa x hm
    exact ⟨fun p hp => key p ((hc v).1 p hp), fun p hp => key p ((hc v).2 p hp)⟩

/-! ## non-vacuity -/

/-- glibc in a process whose locale is and stays "C": `setlocale(LC_NUMERIC, "C")` finds "changing to the same
thing" and returns; this `Ext` satisfies `hNoop` -/
def glibcExtC : Ext where
  run f a sh := if f = SETLOCALE then (sh.locale, sh) else (f + a, sh)

example : glibcExtC.Respects (fun _ => False) (fun f => f ∈ allowPure ∨ f ∈ processGlobal) := by
  intro f _ a sh x _ _
  simp only [glibcExtC]; split <;> rfl

/-- two threads, each making a failing lookup (allocates an error object in its own memory) and a second call;
the hypotheses of `race_free`/`serial_equivalence` hold for this configuration -/
def exConfig : Config where
  st := ⟨⟨fun _ => 0, 0, nm! "C", fun _ => 0⟩, fun _ _ => 0⟩
  th := fun u => ⟨none, [exAtomicWeight u, exAtomicWeight u], []⟩

theorem exConfig_conf : exConfig.Conf (fun _ => False) (fun f => f ∈ allowPure) := by
  intro u
  have hc : (exAtomicWeight u).Conf u (fun _ => False) (fun f => f ∈ allowPure) := by
    refine ⟨Or.inl rfl, fun v => ?_⟩
    by_cases hv : v = 0
    · simp only [hv, if_true]; exact ⟨by decide, fun _ => ⟨Or.inr ⟨0, rfl⟩, trivial⟩⟩
    · simp only [hv, if_false]; trivial
  refine ⟨fun p hp => by simp [exConfig] at hp, fun p hp => ?_⟩
  simp only [exConfig, List.mem_cons, List.not_mem_nil, or_false, or_self] at hp
  subst hp; exact hc

/-- under an arbitrary interleaving of threads 0 and 1 each thread has recorded what it records alone -/
example : ((runSched glibcExt exConfig [0, 1, 1, 0, 0, 1, 0, 1, 1, 0, 0, 1]).th 1).done
    = (solo glibcExt (exConfig.th 1) exConfig.st 6).1.done :=
  (serial_equivalence glibcExt _ (glibcExt_respects_pure (fun f hf => by intro e; subst e; revert hf; decide))
    exConfig exConfig_conf [0, 1, 1, 0, 0, 1, 0, 1, 1, 0, 0, 1] 1).2.1

/-- readers of a shared user array: thread u looks entry u up in the array `userArr 0` and copies it into its own memory -/
def exSharedReaders : Config where
  st := ⟨⟨fun _ => 0, 0, nm! "C", fun _ => 7⟩, fun _ _ => 0⟩
  th := fun u => ⟨none, [.read (.userArr 0) fun v => .ext (nm! "malloc") 48 fun p => .write (.owned u 0) (v + p) (.ret v)], []⟩

theorem exSharedReaders_conf : exSharedReaders.Conf (fun _ => False) (fun f => f ∈ allowPure ∨ f ∈ fileFns) := by
  intro u
  refine ⟨fun p hp => by simp [exSharedReaders] at hp, fun p hp => ?_⟩
  simp only [exSharedReaders, List.mem_cons, List.not_mem_nil, or_false] at hp
  subst hp
  exact ⟨Or.inl rfl, fun _ => ⟨Or.inl (by decide), fun _ => ⟨Or.inr ⟨0, rfl⟩, trivial⟩⟩⟩

/-- three readers interleaved: thread 2 has recorded what it records alone -/
example : ((runSched glibcExt exSharedReaders [0, 1, 2, 2, 0, 1, 2, 1, 2, 0, 2, 0]).th 2).done
    = (solo glibcExt (exSharedReaders.th 2) exSharedReaders.st 5).1.done :=
  (serial_equivalence glibcExt _ (glibcExt_respects_pure (fun f hf => by
      intro e; subst e; rcases hf with hf | hf <;> revert hf <;> decide))
    exSharedReaders exSharedReaders_conf [0, 1, 2, 2, 0, 1, 2, 1, 2, 0, 2, 0] 2).2.1

/-- EXPLICIT MODIFICATION OF A SHARED COLLECTION NEEDS LOCKING: thread 0 inserts into the shared array while thread 1 reads
it.  After each has started its call their next accesses conflict … -/
def exSharedWriter : Config where
  st := ⟨⟨fun _ => 0, 0, nm! "C", fun _ => 7⟩, fun _ _ => 0⟩
  th := fun u => if u = 0 then ⟨none, [.write (.userArr 0) 8 (.ret 1)], []⟩
                 else if u = 1 then ⟨none, [.read (.userArr 0) .ret], []⟩ else ⟨none, [], []⟩

example : ((runSched glibcExt exSharedWriter [0, 1]).th 0).next = some (.wr (.userArr 0))
    ∧ ((runSched glibcExt exSharedWriter [0, 1]).th 1).next = some (.rd (.userArr 0))
    ∧ Conflict MtSafe (.wr (.userArr 0)) (.rd (.userArr 0)) := ⟨rfl, rfl, rfl⟩

/-- … and what the reader gets depends on the schedule -/
example : ((runSched glibcExt exSharedWriter [0, 0, 0, 1, 1, 1]).th 1).done = [8]
    ∧ ((runSched glibcExt exSharedWriter [1, 1, 1, 0, 0, 0]).th 1).done = [7] := ⟨rfl, rfl⟩

/-- a configuration that violates the hypothesis does race: both threads are about to write the same `static` -/
example : Conflict MtSafe (.wr (.table 2)) (.wr (.table 2)) := rfl

end XrlSched.C17
