/-
C16 — queries are pure: results do not depend on call history and leave no trace.

Property theorems only; the machinery is in Hand/{Footprint,Step,Locale}.lean, the footprint table in
Gen/Footprint.lean (regenerated from /repo on every run by tools/footprint.py).
-/
import XrlSched.Gen.Footprint
import XrlSched.Hand.Locale
namespace XrlSched.C16
open XrlSched

/-! ## the allow-list of external functions (hand-written; names, not table indices) -/

/-- libm: functions of their arguments (the rounding mode is never changed by the library) -/
def libm : List Nat := [nm! "exp", nm! "log", nm! "log10", nm! "sqrt", nm! "pow", nm! "sin", nm! "cos", nm! "tan",
  nm! "asin", nm! "acos", nm! "atan", nm! "atan2", nm! "fabs", nm! "floor", nm! "ceil"]
/-- allocation: only ever for caller-owned results, error objects and per-call scratch — guaranteed by
`writes = []`: no allocated pointer can be stored into a file-scope or static object -/
def allocFns : List Nat := [nm! "malloc", nm! "calloc", nm! "realloc", nm! "free", nm! "strdup", nm! "strndup", nm! "vasprintf"]
/-- sorting / searching: `qsort` permutes the array it is handed — with `writes = []` that array is never a
file-scope object; `bsearch` / `lfind` only read -/
def searchFns : List Nat := [nm! "qsort", nm! "bsearch", nm! "lfind"]
/-- byte/string functions of their arguments; `strtod` and the `<ctype.h>` table read the locale, never write it -/
def stringFns : List Nat := [nm! "strcmp", nm! "strlen", nm! "memcpy", nm! "strtod", nm! "__ctype_b_loc"]
/-- diagnostics: `fprintf` ON `stderr` ONLY (the extractor tags every stdio output call with its stream: a
`fprintf(stdout, …)`, a `fprintf(f, …)` on any other stream, `printf`, `puts` are different names and are NOT in this
list, so one of them anywhere below a query breaks `readonly_footprint_decided`).  It is reached only when the CALLER breaks
the error-slot protocol (error stored over an error, NULL format) and in the five deprecated no-op functions — the
"deprecation diagnostics" the property exempts: that is `diagnostics_only_at_error_sites` below, not a comment.
`strerror`/`errno` only on allocation failure; the `va_*` builtins are compiler intrinsics -/
def diagFns : List Nat := [nm! "fprintf@stderr", nm! "strerror", nm! "__errno_location", nm! "__builtin_va_start", nm! "__builtin_va_end"]

def allowPure : List Nat := libm ++ allocFns ++ searchFns ++ stringFns ++ diagFns

/-- listed SEPARATELY: the one process-global effect reachable from the read-only API -/
def processGlobal : List Nat := [SETLOCALE]

def noWrite : Nat → Bool := fun _ => false
def okPure : Nat → Bool := fun x => allowPure.contains x
def okWithLocale : Nat → Bool := fun x => allowPure.contains x || processGlobal.contains x

/-! ## the entry points -/

/-- everything public except the documented crystal-array mutators -/
def safeEntries : List Nat := Gen.queryEntries ++ Gen.allocEntries ++ Gen.errorEntries ++ Gen.deprecatedEntries

/-- functions from which `setlocale` is reachable (bit mask; candidate, re-verified below) -/
def localeFns : Nat := reachers Gen.fns SETLOCALE 24 0
def pureEntries : List Nat := safeEntries.filter (fun e => !localeFns.testBit e)
def localeEntries : List Nat := safeEntries.filter (fun e => localeFns.testBit e)

def CRYSTAL_ARR : Nat := nm! "Crystal_arr"
def okCrystal : Nat → Bool := fun w => w == CRYSTAL_ARR

/-! ## readonly_footprint (kernel-decided over the generated table) -/

theorem readonly_footprint_decided : checkEntries Gen.fns safeEntries noWrite okWithLocale = true := by decide +kernel
theorem pure_footprint_decided :
    withList pureEntries (fun es => checkEntries Gen.fns es noWrite okPure) = true := by decide +kernel
theorem mutator_footprint_decided : checkEntries Gen.fns Gen.mutatorEntries okCrystal (fun _ => true) = true := by
  decide +kernel

/-- READONLY_FOOTPRINT.  For every public entry point other than the crystal-array mutators, every function
reachable from it in the call graph of libxrl is defined in the table, writes NO file-scope or static object
(directly, through an alias, or by handing a pointer to a callee that writes through it) and calls no external
function outside the allow-list ∪ {setlocale}. -/
theorem readonly_footprint : ∀ e ∈ safeEntries, ∀ i, Reach Gen.fns e i →
    ∃ f, Gen.fns[i]? = some f ∧ f.writes = [] ∧ ∀ x ∈ f.exts, x ∈ allowPure ∨ x ∈ processGlobal := by
  intro e he i hr
  obtain ⟨f, hf, hw, hx⟩ := checkEntries_sound readonly_footprint_decided he hr
  refine ⟨f, hf, ?_, fun x hxm => ?_⟩
  · cases hfw : f.writes with
    | nil => rfl
    | cons w ws => have := hw w (by rw [hfw]; exact List.mem_cons_self ..); simp [noWrite] at this
  · have := hx x hxm
    simp only [okWithLocale, Bool.or_eq_true, List.contains_iff_mem] at this
    exact this

/-- the entry points that do not reach `setlocale` call allow-listed external functions only -/
theorem pure_footprint : ∀ e ∈ pureEntries, ∀ i, Reach Gen.fns e i →
    ∃ f, Gen.fns[i]? = some f ∧ f.writes = [] ∧ ∀ x ∈ f.exts, x ∈ allowPure := by
  intro e he i hr
  have hd := pure_footprint_decided
  rw [withList_eq] at hd
  obtain ⟨f, hf, hw, hx⟩ := checkEntries_sound hd he hr
  refine ⟨f, hf, ?_, fun x hxm => ?_⟩
  · cases hfw : f.writes with
    | nil => rfl
    | cons w ws => have := hw w (by rw [hfw]; exact List.mem_cons_self ..); simp [noWrite] at this
  · have := hx x hxm
    simp only [okPure, List.contains_iff_mem] at this
    exact this

/-- the documented mutators write no library object other than the built-in crystal array -/
theorem mutator_footprint : ∀ e ∈ Gen.mutatorEntries, ∀ i, Reach Gen.fns e i →
    ∃ f, Gen.fns[i]? = some f ∧ ∀ w ∈ f.writes, w = CRYSTAL_ARR := by
  intro e he i hr
  obtain ⟨f, hf, hw, _⟩ := checkEntries_sound mutator_footprint_decided he hr
  exact ⟨f, hf, fun w hwm => by have := hw w hwm; simpa [okCrystal] using this⟩

/-! ## standard streams: which functions print, and where -/

/-- the only functions of libxrl that call a stdio output function at all: the error-object constructors and
`xrl_propagate_error` (a CALLER handing in an occupied slot or a NULL format) and the five deprecated no-ops -/
def diagSites : List Nat := [nm! "xrl_error_new", nm! "xrl_error_new_literal", nm! "xrl_error_new_valist",
  nm! "xrl_set_error", nm! "xrl_set_error_literal", nm! "xrl_propagate_error",
  nm! "SetHardExit", nm! "SetExitStatus", nm! "GetExitStatus", nm! "SetErrorMessages", nm! "GetErrorMessages"]

/-- the stdio OUTPUT functions as the extractor names them (`<function>@<stream>` where the function takes a stream) -/
def stdioOut : List Nat := [
  nm! "fprintf@stderr", nm! "fprintf@stdout", nm! "fprintf@stdin", nm! "fprintf@other",
  nm! "vfprintf@stderr", nm! "vfprintf@stdout", nm! "vfprintf@stdin", nm! "vfprintf@other",
  nm! "fputs@stderr", nm! "fputs@stdout", nm! "fputs@stdin", nm! "fputs@other",
  nm! "fputc@stderr", nm! "fputc@stdout", nm! "fputc@stdin", nm! "fputc@other",
  nm! "putc@stderr", nm! "putc@stdout", nm! "putc@stdin", nm! "putc@other",
  nm! "fwrite@stderr", nm! "fwrite@stdout", nm! "fwrite@stdin", nm! "fwrite@other",
  nm! "fflush@stderr", nm! "fflush@stdout", nm! "fflush@stdin", nm! "fflush@other",
  nm! "printf", nm! "vprintf", nm! "puts", nm! "putchar", nm! "perror"]

/-- the exempted form -/
def stderrDiag : List Nat := [nm! "fprintf@stderr"]

theorem diagnostics_decided :
    Gen.fns.all (fun f => f.exts.all (fun x => !stdioOut.contains x || (stderrDiag.contains x && diagSites.contains f.name))) = true := by
  decide +kernel

/-- DIAGNOSTICS ONLY ON STDERR, ONLY AT THE ERROR-PROTOCOL AND DEPRECATION SITES.  Over the WHOLE table (mutators and
internal functions included): a function of libxrl that calls any stdio output function calls `fprintf(stderr, …)` and
is one of the eleven `diagSites`.  A stray `fprintf(stderr, …)` in a query, a `fprintf(stdout, …)` or a `printf`
anywhere breaks this theorem (the latter two also break `readonly_footprint_decided`). -/
theorem diagnostics_only_at_error_sites : ∀ f ∈ Gen.fns, ∀ x ∈ f.exts, x ∈ stdioOut → x ∈ stderrDiag ∧ f.name ∈ diagSites := by
  intro f hf x hx hs
  have h1 := (List.all_eq_true.mp diagnostics_decided) f hf
  have h2 := (List.all_eq_true.mp h1) x hx
  simp only [Bool.or_eq_true, Bool.not_eq_true', Bool.and_eq_true, List.contains_iff_mem] at h2
  rcases h2 with h2 | h2
  · have : stdioOut.contains x = true := List.contains_iff_mem.mpr hs
    rw [this] at h2; cases h2
  · exact h2

/-! ## hidden per-thread state a call might READ: errno -/

/-- The extractor's pseudo-callee for "this function reads `errno` and lets the value take part in what it does, and the value
may be one that an EARLIER call left behind" (tools/footprint.py, `errno reads`: not the argument of `strerror`, not a
save/restore pair, not preceded on every path by an `errno = …` statement of the same function).  `__errno_location` itself stays
in `diagFns`: libc WRITES errno on failure, and `strerror(errno)` after a failed `malloc`/`fopen` reports it. -/
def ERRNO_READ : Nat := nm! "errno@read"

theorem errno_never_read_decided : Gen.fns.all (fun f => !f.exts.contains ERRNO_READ) = true := by decide +kernel

/-- NO FUNCTION OF LIBXRL DEPENDS ON A STALE errno.  Over the WHOLE table (mutators and internal functions included): no function
reads `errno` in a way in which the value left by an earlier call — of the library, of libc, of the application — can influence
what it does.  (A `strtod` whose range check is `errno == ERANGE` without `errno = 0` in front breaks this theorem, and — the name not
being in any allow-list — `readonly_footprint_decided` as well.) -/
theorem errno_never_read : ∀ f ∈ Gen.fns, ERRNO_READ ∉ f.exts := by
  intro f hf hm
  have h1 := (List.all_eq_true.mp errno_never_read_decided) f hf
  simp only [Bool.not_eq_true', ← Bool.not_eq_true, List.contains_iff_mem] at h1
  exact h1 hm

/-- the same, as a consequence of the allow-lists, for everything reachable from a safe entry point: `errno@read` is in none of them -/
theorem safe_entries_do_not_read_errno : ∀ e ∈ safeEntries, ∀ i, Reach Gen.fns e i →
    ∃ f, Gen.fns[i]? = some f ∧ ERRNO_READ ∉ f.exts := by
  intro e he i hr
  obtain ⟨f, hf, _, hx⟩ := readonly_footprint e he i hr
  refine ⟨f, hf, fun hm => ?_⟩
  rcases hx _ hm with h | h <;> revert h <;> decide

/-! ## the exemption, per ARGUMENT: mutators applied to a user array -/

/-- file input (reached from `Crystal_ReadFile` only): functions of the stream they are handed -/
def fileFns : List Nat := [nm! "fopen", nm! "fclose", nm! "fgets", nm! "feof", nm! "fscanf", nm! "sscanf", nm! "fseek", nm! "ftell"]
def okUserMut : Nat → Bool := fun x => allowPure.contains x || fileFns.contains x

/-- `Gen.userMutatorEntries`: the rows `Crystal_AddCrystal@user`, `Crystal_ReadFile@user`, `Crystal_ArrayFree@user` — the
mutators' bodies analysed under the assumption that the `Crystal_Array*` argument is not NULL (tools/footprint.py, VARIANT
analysis: the branch `if (c_array == NULL) c_array = &Crystal_arr;` is dead, calls that pass the array on go to the callee's
`@user` row).  Kernel-decided: with a user array they write NO file-scope or static object at all. -/
theorem user_mutator_footprint_decided : checkEntries Gen.fns Gen.userMutatorEntries noWrite okUserMut = true := by
  decide +kernel

/-- one `@user` row per documented mutator (so the theorem below is not about an empty list) -/
theorem user_mutators_complete : Gen.userMutatorEntries.length = Gen.mutatorEntries.length ∧ Gen.userMutatorEntries ≠ [] := by
  decide +kernel

/-- MUTATORS ON A USER ARRAY WRITE ONLY WHAT THEY ARE HANDED: everything reachable from a mutator whose array argument
is not NULL writes no library object (its stores go through its parameters: the array passed, the error slot) and
calls allow-listed functions and file input only -/
theorem user_mutator_footprint : ∀ e ∈ Gen.userMutatorEntries, ∀ i, Reach Gen.fns e i →
    ∃ f, Gen.fns[i]? = some f ∧ f.writes = [] ∧ ∀ x ∈ f.exts, x ∈ allowPure ∨ x ∈ fileFns := by
  intro e he i hr
  obtain ⟨f, hf, hw, hx⟩ := checkEntries_sound user_mutator_footprint_decided he hr
  refine ⟨f, hf, ?_, fun x hxm => ?_⟩
  · cases hfw : f.writes with
    | nil => rfl
    | cons w ws => have := hw w (by rw [hfw]; exact List.mem_cons_self ..); simp [noWrite] at this
  · have := hx x hxm
    simp only [okUserMut, Bool.or_eq_true, List.contains_iff_mem] at this
    exact this

/-- every safe entry point is in exactly one of the two classes (so `pure_footprint` covers all of them except
the listed `localeEntries`) -/
theorem entries_partition : ∀ e ∈ safeEntries, e ∈ pureEntries ∨ e ∈ localeEntries := by
  intro e he
  cases h : localeFns.testBit e
  · exact Or.inl (List.mem_filter.mpr ⟨he, by simp [h]⟩)
  · exact Or.inr (List.mem_filter.mpr ⟨he, by simp [h]⟩)

/-! ## purity over the step semantics -/

/-- PURITY.  `E`: any behaviour of the external functions that leaves the shared state alone for the functions
`X` admits.  If every call of a history `h` and the query `q` conform to a read-only footprint (no shared write,
external calls within `X`; each call works on its own caller's memory), then `q` returns after `h` exactly what it
returns in the initial state, and `h` has changed neither the shared state (tables, built-in crystals, locale)
nor the memory of `q`'s caller. -/
theorem purity (E : Ext) (X : Nat → Prop) (hE : E.Respects (fun _ => False) X) (s : State) (h : List Call) (q : Call)
    (hh : ∀ c ∈ h, c.prog.Conf c.owner (fun _ => False) X) (hq : q.prog.Conf q.owner (fun _ => False) X)
    (hown : ∀ c ∈ h, c.owner ≠ q.owner) :
    (step E (runHist E s h) q).2 = (step E s q).2
    ∧ (runHist E s h).sh = s.sh
    ∧ ∀ j, (runHist E s h).heap q.owner j = s.heap q.owner j := by
  have hsh : (runHist E s h).sh = s.sh := by
    apply Shared.ext_get
    intro x hx
    have := runHist_frame hE h s hh x (Or.inl ⟨hx, fun f => f⟩)
    rwa [State.get_shared _ hx, State.get_shared _ hx] at this
  have hheap : ∀ j, (runHist E s h).heap q.owner j = s.heap q.owner j := fun j =>
    runHist_frame hE h s hh (.owned q.owner j) (Or.inr ⟨q.owner, j, hown, rfl⟩)
  exact ⟨(Prog.run_agree hq ⟨hsh, hheap⟩).1, hsh, hheap⟩

/-- An object handed to a caller (error object, result) is never affected by later calls of other callers —
whatever those calls are allowed to do to the shared state (`W`, `X` arbitrary). -/
theorem error_object_stable (E : Ext) (W : Loc → Prop) (X : Nat → Prop) (hE : E.Respects W X) (s : State)
    (h₁ h₂ : List Call) (c : Call) (hh : ∀ d ∈ h₂, d.prog.Conf d.owner W X) (hown : ∀ d ∈ h₂, d.owner ≠ c.owner) :
    ∀ j, (runHist E s (h₁ ++ c :: h₂)).heap c.owner j = (runHist E s (h₁ ++ [c])).heap c.owner j := by
  intro j
  have : h₁ ++ c :: h₂ = (h₁ ++ [c]) ++ h₂ := by simp
  rw [this, runHist_append]
  exact runHist_frame hE h₂ _ hh (.owned c.owner j) (Or.inr ⟨c.owner, j, hown, rfl⟩)

/-- a call tagged as a crystal-array mutator may write `crystals`; every other call is read-only -/
structure TCall where
  call : Call
  mutator : Bool

def TCall.ok (X : Nat → Prop) (c : TCall) : Prop :=
  if c.mutator then c.call.prog.Conf c.call.owner (fun x => x = .crystals) X
  else c.call.prog.Conf c.call.owner (fun _ => False) X

/-- ONLY EXPLICIT CRYSTAL INSERTIONS CHANGE STATE.  After any history of read-only calls and crystal-array
mutators the data tables and the locale are what they were; and if the history contains no mutator the whole
shared state is. -/
theorem only_crystal_insertions_change_state (E : Ext) (X : Nat → Prop) (hE : E.Respects (fun _ => False) X)
    (s : State) (h : List TCall) (hok : ∀ c ∈ h, c.ok X) :
    (runHist E s (h.map (·.call))).sh.tables = s.sh.tables
    ∧ (runHist E s (h.map (·.call))).sh.locale = s.sh.locale
    ∧ ((∀ c ∈ h, c.mutator = false) → (runHist E s (h.map (·.call))).sh = s.sh) := by
  have hE' : E.Respects (fun x => x = .crystals) X := fun f hf a sh x hs _ => hE f hf a sh x hs (fun f => f)
  have hconf : ∀ c ∈ h.map (·.call), c.prog.Conf c.owner (fun x => x = .crystals) X := by
    intro c hc
    obtain ⟨t, ht, rfl⟩ := List.mem_map.mp hc
    have := hok t ht
    unfold TCall.ok at this
    split at this
    · exact this
    · exact Prog.Conf.mono (fun _ f => f.elim) (fun _ a => a) this
  refine ⟨?_, ?_, ?_⟩
  · funext n
    exact runHist_frame hE' _ s hconf (.table n) (Or.inl ⟨rfl, by simp⟩)
  · exact runHist_frame hE' _ s hconf .locale (Or.inl ⟨rfl, by simp⟩)
  · intro hm
    have hconf0 : ∀ c ∈ h.map (·.call), c.prog.Conf c.owner (fun _ => False) X := by
      intro c hc
      obtain ⟨t, ht, rfl⟩ := List.mem_map.mp hc
      have := hok t ht
      unfold TCall.ok at this
      simpa [hm t ht] using this
    apply Shared.ext_get
    intro x hx
    have := runHist_frame hE _ s hconf0 x (Or.inl ⟨hx, fun f => f⟩)
    rwa [State.get_shared _ hx, State.get_shared _ hx] at this

/-! ## instantiation for xraylib: the hypothesis of `purity` is what `pure_footprint` provides -/

/-- shared object named `w` in the footprint table -/
def locOf (w : Nat) : Loc := if w = CRYSTAL_ARR then .crystals else .table w

/-- the transitive footprint of entry point `e`, read off the generated table -/
def fpW (e : Nat) : Loc → Prop := fun x => ∃ w, TransWrites Gen.fns e w ∧ x = locOf w
def fpX (e : Nat) : Nat → Prop := fun f => TransExts Gen.fns e f

/-- `c` is a call of one of the entry points `es`: its behaviour is constrained by that entry's footprint only -/
def CallOf (es : List Nat) (c : Call) : Prop := ∃ e ∈ es, c.prog.Conf c.owner (fpW e) (fpX e)

theorem CallOf.readonly {c : Call} (h : CallOf pureEntries c) :
    c.prog.Conf c.owner (fun _ => False) (fun f => f ∈ allowPure) := by
  obtain ⟨e, he, hc⟩ := h
  refine Prog.Conf.mono ?_ ?_ hc
  · rintro x ⟨w, ⟨i, f, hr, hf, hm⟩, _⟩
    obtain ⟨f', hf', hw, _⟩ := pure_footprint e he i hr
    rw [hf] at hf'; cases hf'; rw [hw] at hm; cases hm
  · rintro x ⟨i, f, hr, hf, hm⟩
    obtain ⟨f', hf', _, hx⟩ := pure_footprint e he i hr
    rw [hf] at hf'; cases hf'; exact hx x hm

/-- PURITY OF THE XRAYLIB QUERY API (all safe entry points that do not reach `setlocale`).  Trusted hypothesis,
named: the allow-listed libc/libm functions do not change the library's tables, the crystal array or the locale. -/
theorem purity_xraylib (E : Ext) (hE : E.Respects (fun _ => False) (fun f => f ∈ allowPure))
    (s : State) (h : List Call) (q : Call)
    (hh : ∀ c ∈ h, CallOf pureEntries c) (hq : CallOf pureEntries q) (hown : ∀ c ∈ h, c.owner ≠ q.owner) :
    (step E (runHist E s h) q).2 = (step E s q).2
    ∧ (runHist E s h).sh = s.sh
    ∧ ∀ j, (runHist E s h).heap q.owner j = s.heap q.owner j :=
  purity E _ hE s h q (fun c hc => (hh c hc).readonly) hq.readonly hown

/-- the pure entry points together with the mutators applied to an array of the caller's own -/
def userSafeEntries : List Nat := pureEntries ++ Gen.userMutatorEntries

theorem CallOf.user_readonly {c : Call} (h : CallOf userSafeEntries c) :
    c.prog.Conf c.owner (fun _ => False) (fun f => f ∈ allowPure ∨ f ∈ fileFns) := by
  obtain ⟨e, he, hc⟩ := h
  rcases List.mem_append.mp he with he | he
  · exact Prog.Conf.mono (fun _ f => f) (fun _ a => Or.inl a) (CallOf.readonly ⟨e, he, hc⟩)
  · refine Prog.Conf.mono ?_ ?_ hc
    · rintro x ⟨w, ⟨i, f, hr, hf, hm⟩, _⟩
      obtain ⟨f', hf', hw, _⟩ := user_mutator_footprint e he i hr
      rw [hf] at hf'; cases hf'; rw [hw] at hm; cases hm
    · rintro x ⟨i, f, hr, hf, hm⟩
      obtain ⟨f', hf', _, hx⟩ := user_mutator_footprint e he i hr
      rw [hf] at hf'; cases hf'; exact hx x hm

/-- PURITY WITH MUTATORS ON USER ARRAYS.  `Crystal_AddCrystal(c, arr)`, `Crystal_ReadFile(file, arr)` and
`Crystal_ArrayFree(arr)` with `arr ≠ NULL` — an array that is the caller's own memory — may be mixed freely into a history:
they write nothing but what they are handed, so a query returns after the history what it returns without it, and the tables,
the BUILT-IN crystal array and the locale are untouched.  (Trusted, named: the allow-listed and the file-input functions
leave the shared state alone.) -/
theorem purity_with_user_array_mutators (E : Ext)
    (hE : E.Respects (fun _ => False) (fun f => f ∈ allowPure ∨ f ∈ fileFns))
    (s : State) (h : List Call) (q : Call)
    (hh : ∀ c ∈ h, CallOf userSafeEntries c) (hq : CallOf userSafeEntries q) (hown : ∀ c ∈ h, c.owner ≠ q.owner) :
    (step E (runHist E s h) q).2 = (step E s q).2
    ∧ (runHist E s h).sh = s.sh
    ∧ ∀ j, (runHist E s h).heap q.owner j = s.heap q.owner j :=
  purity E _ hE s h q (fun c hc => (hh c hc).user_readonly) hq.user_readonly hown

/-- the parser family (entries that reach `setlocale`): whatever they do, the data tables and the crystal array
are untouched — the locale is the only shared object at stake -/
theorem locale_entries_frame (E : Ext)
    (hE : E.Respects (fun x => x = .locale) (fun f => f ∈ allowPure ∨ f ∈ processGlobal))
    (s : State) (h : List Call) (hh : ∀ c ∈ h, CallOf safeEntries c) :
    (runHist E s h).sh.tables = s.sh.tables ∧ (runHist E s h).sh.crystals = s.sh.crystals := by
  have hconf : ∀ c ∈ h, c.prog.Conf c.owner (fun x => x = .locale) (fun f => f ∈ allowPure ∨ f ∈ processGlobal) := by
    intro c hc
    obtain ⟨e, he, hcf⟩ := hh c hc
    refine Prog.Conf.mono ?_ ?_ hcf
    · rintro x ⟨w, ⟨i, f, hr, hf, hm⟩, _⟩
      obtain ⟨f', hf', hw, _⟩ := readonly_footprint e he i hr
      rw [hf] at hf'; cases hf'; rw [hw] at hm; cases hm
    · rintro x ⟨i, f, hr, hf, hm⟩
      obtain ⟨f', hf', _, hx⟩ := readonly_footprint e he i hr
      rw [hf] at hf'; cases hf'; exact hx x hm
  refine ⟨?_, ?_⟩
  · funext n
    exact runHist_frame hE _ s hconf (.table n) (Or.inl ⟨rfl, by simp⟩)
  · exact runHist_frame hE _ s hconf .crystals (Or.inl ⟨rfl, by simp⟩)

/-! ## the locale: full statement, verdict, partial statement -/

/-- FULL STATEMENT for the process locale: every function of libxrl that calls `setlocale` does so in a
straight-line LC_NUMERIC protocol that puts back the locale it found, whatever that locale was. -/
def purity_full : Prop :=
  ∀ p ∈ Gen.localeProtocols, p.simple = true ∧ ∀ other l, execLocale other p.ops l = l

/-- Every extracted protocol is straight-line LC_NUMERIC-only (otherwise the model does not speak about it and
the check reports the tie as broken). -/
theorem locale_protocols_simple : Gen.localeProtocols.all (fun p => p.simple) = true := by decide +kernel

/-- VERDICT, valid on every tree: the full statement holds iff the kernel-evaluated symbolic check accepts every
extracted protocol.  (The check evaluates `Gen.localeProtocols.all (·.restoring)` on every run and demands that the
real library agrees.  Before /repo commit cc18f9b it was `false` — CompoundParser saved the RETURN value of
`setlocale(LC_NUMERIC, "C")` and ended in "C" whatever it found (finding C16-1, DESIGN §4 #5); since that repair the
extracted protocol is `[query, setLit "C", setRet 0]` and the verdict is `true`.) -/
theorem purity_full_iff : purity_full ↔ Gen.localeProtocols.all (fun p => p.restoring) = true := by
  constructor
  · intro h
    apply List.all_eq_true.mpr
    intro p hp
    obtain ⟨hs, hr⟩ := h p hp
    simp only [LocaleProto.restoring, Bool.and_eq_true, decide_eq_true_eq]
    refine ⟨hs, ?_⟩
    -- two different initial locales end in themselves: the symbolic final value can only be `init`
    have h0 := hr 0 0
    have h1 := hr 0 1
    rw [execLocale_eq_sym] at h0 h1
    cases hsym : symFinal p.ops with
    | init => rfl
    | lit n => rw [hsym] at h0 h1; simp at h0 h1; omega
    | unknown => rw [hsym] at h1; simp at h1
  · intro h p hp
    have hr := (List.all_eq_true.mp h) p hp
    have hs : p.simple = true := by
      simp only [LocaleProto.restoring, Bool.and_eq_true] at hr; exact hr.1
    exact ⟨hs, fun other l => restoring_sound hr other l⟩

/-! ### result equality for the parser family, from the verdict -/

/-- a call that follows the locale discipline leaves the whole shared state as it found it -/
theorem disciplined_call_restores (E : Ext) (X : Nat → Prop) (other : Nat) (Ps : List (List LocaleOp))
    (hset : ∀ a sh, E.run SETLOCALE a sh = glibcExt.run SETLOCALE a sh)
    (hE : E.Respects (fun _ => False) (fun f => X f ∧ f ≠ SETLOCALE))
    (hPs : ∀ P ∈ Ps, ∀ l, execLocale other P l = l)
    (s : State) (c : Call) (hc : c.prog.Conf c.owner (fun _ => False) X) (hf : c.prog.Follows other Ps [] []) :
    (step E s c).1.sh = s.sh := by
  have hE' : E.Respects (fun x => x = .locale) X := by
    intro f hX a sh x hs hnw
    by_cases hfs : f = SETLOCALE
    · subst hfs; rw [hset]; exact glibcExt_respects_locale (fun _ => True) SETLOCALE trivial a sh x hs hnw
    · exact hE f ⟨hX, hfs⟩ a sh x hs (fun f => f)
  apply Shared.ext_get
  intro x hx
  by_cases hxl : x = .locale
  · subst hxl
    have := Prog.follows_locale (o := c.owner) hset
      (fun f hX hne a sh => hE f ⟨hX, hne⟩ a sh .locale rfl (fun f => f)) hPs s.sh.locale c.prog [] [] s hc hf (Or.inl ⟨rfl, rfl⟩)
    exact this
  · have := Prog.run_frame hE' (Prog.Conf.mono (fun _ f => f.elim) (fun _ a => a) hc) x (Or.inl ⟨hx, hxl⟩) (s := s)
    rw [State.get_shared _ hx, State.get_shared _ hx] at this
    exact this

/-- PURITY FOR CALLS THAT SWITCH THE LOCALE AND PUT IT BACK (general form).  `E`: `setlocale` as glibc implements it; every
other admitted external function leaves the shared state alone.  If every call of the history has a read-only footprint
and makes its `setlocale` calls according to protocols that each restore the locale they find (`Prog.Follows`: complete runs
only, arguments as prescribed; anything in between), then — whatever the process locale is — the query returns after the
history what it returns without it, and the shared state and the query's caller's memory are unchanged. -/
theorem purity_locale_disciplined (E : Ext) (X : Nat → Prop) (other : Nat) (Ps : List (List LocaleOp))
    (hset : ∀ a sh, E.run SETLOCALE a sh = glibcExt.run SETLOCALE a sh)
    (hE : E.Respects (fun _ => False) (fun f => X f ∧ f ≠ SETLOCALE))
    (hPs : ∀ P ∈ Ps, ∀ l, execLocale other P l = l)
    (s : State) (h : List Call) (q : Call)
    (hh : ∀ c ∈ h, c.prog.Conf c.owner (fun _ => False) X ∧ c.prog.Follows other Ps [] [])
    (hq : q.prog.Conf q.owner (fun _ => False) X) (hown : ∀ c ∈ h, c.owner ≠ q.owner) :
    (step E (runHist E s h) q).2 = (step E s q).2
    ∧ (runHist E s h).sh = s.sh
    ∧ ∀ j, (runHist E s h).heap q.owner j = s.heap q.owner j := by
  have hE' : E.Respects (fun x => x = .locale) X := by
    intro f hX a sh x hs hnw
    by_cases hfs : f = SETLOCALE
    · subst hfs; rw [hset]; exact glibcExt_respects_locale (fun _ => True) SETLOCALE trivial a sh x hs hnw
    · exact hE f ⟨hX, hfs⟩ a sh x hs (fun f => f)
  have hsh : ∀ (h : List Call) (s : State), (∀ c ∈ h, c.prog.Conf c.owner (fun _ => False) X ∧ c.prog.Follows other Ps [] []) →
      (runHist E s h).sh = s.sh := by
    intro h
    induction h with
    | nil => intro s _; rfl
    | cons c h ih =>
      intro s hc
      rw [runHist_cons, ih _ (fun d hd => hc d (List.mem_cons_of_mem _ hd))]
      exact disciplined_call_restores E X other Ps hset hE hPs s c (hc c (List.mem_cons_self ..)).1 (hc c (List.mem_cons_self ..)).2
  have hheap : ∀ j, (runHist E s h).heap q.owner j = s.heap q.owner j := fun j =>
    runHist_frame hE' h s (fun c hc => Prog.Conf.mono (fun _ f => f.elim) (fun _ a => a) (hh c hc).1)
      (.owned q.owner j) (Or.inr ⟨q.owner, j, hown, rfl⟩)
  exact ⟨(Prog.run_agree hq ⟨hsh h s hh, hheap⟩).1, hsh h s hh, hheap⟩

theorem CallOf.safe_readonly {c : Call} (h : CallOf safeEntries c) :
    c.prog.Conf c.owner (fun _ => False) (fun f => f ∈ allowPure ∨ f ∈ processGlobal) := by
  obtain ⟨e, he, hcf⟩ := h
  refine Prog.Conf.mono ?_ ?_ hcf
  · rintro x ⟨w, ⟨i, f, hr, hf, hm⟩, _⟩
    obtain ⟨f', hf', hw, _⟩ := readonly_footprint e he i hr
    rw [hf] at hf'; cases hf'; rw [hw] at hm; cases hm
  · rintro x ⟨i, f, hr, hf, hm⟩
    obtain ⟨f', hf', _, hx⟩ := readonly_footprint e he i hr
    rw [hf] at hf'; cases hf'; exact hx x hm

/-- PURITY OF THE WHOLE READ-ONLY API, PARSER FAMILY INCLUDED, from the locale verdict.  If `purity_full` holds (equivalently,
by `purity_full_iff`: the kernel-evaluated check accepts every extracted protocol — re-evaluated on every run, `true` since
/repo commit cc18f9b), then for every process locale a query of ANY safe entry point (the 26 `localeEntries` too) returns
after any history of safe calls what it returns without it, and the history leaves tables, crystal array, locale and the
caller's memory as they were.  Hypotheses about C, named: each call stays inside its entry's footprint (`CallOf`), and its
`setlocale` calls are complete runs of the extracted protocols (`Prog.Follows`; the protocols are straight-line,
`locale_protocols_simple`). -/
theorem purity_xraylib_all (E : Ext) (other : Nat)
    (hset : ∀ a sh, E.run SETLOCALE a sh = glibcExt.run SETLOCALE a sh)
    (hE : E.Respects (fun _ => False) (fun f => (f ∈ allowPure ∨ f ∈ processGlobal) ∧ f ≠ SETLOCALE))
    (hfull : purity_full) (s : State) (h : List Call) (q : Call)
    (hh : ∀ c ∈ h, CallOf safeEntries c ∧ c.prog.Follows other (Gen.localeProtocols.map (·.ops)) [] [])
    (hq : CallOf safeEntries q) (hown : ∀ c ∈ h, c.owner ≠ q.owner) :
    (step E (runHist E s h) q).2 = (step E s q).2
    ∧ (runHist E s h).sh = s.sh
    ∧ ∀ j, (runHist E s h).heap q.owner j = s.heap q.owner j := by
  refine purity_locale_disciplined E _ other _ hset hE ?_ s h q (fun c hc => ⟨(hh c hc).1.safe_readonly, (hh c hc).2⟩)
    hq.safe_readonly hown
  intro P hP l
  obtain ⟨p, hp, rfl⟩ := List.mem_map.mp hP
  exact (hfull p hp).2 other l

/-- a protocol that is not restoring ends in a fixed literal locale: the witness set of the defect is
"LC_NUMERIC ≠ that literal when the call is made" -/
theorem locale_after_call {p : LocaleProto} {n : Nat} (h : symFinal p.ops = .lit n) :
    ∀ other l, execLocale other p.ops l = n := fun other l => not_restoring_lit h other l

/-- PARTIAL STATEMENT (holds whether or not the protocols restore): a process whose LC_NUMERIC locale is the
literal a protocol ends in — "C" — is left in that locale.  The hypothesis excludes exactly the witness set. -/
theorem purity_partial : ∀ p ∈ Gen.localeProtocols, ∀ n, (symFinal p.ops = .lit n ∨ symFinal p.ops = .init) →
    ∀ other, execLocale other p.ops n = n := by
  intro p _ n h other
  rw [execLocale_eq_sym]
  rcases h with h | h <;> rw [h] <;> rfl

/-- every extracted protocol ends either in the initial locale or in the literal "C" (so `purity_partial` applies
to all of them with n = "C") -/
theorem locale_protocols_end_in_C :
    Gen.localeProtocols.all (fun p => decide (symFinal p.ops = .init) || decide (symFinal p.ops = .lit (nm! "C"))) = true := by
  decide +kernel

/-- The defect inside the step semantics: when a protocol ends in a literal `n`, a history consisting of that one
call changes what the query `setlocale(LC_NUMERIC, NULL)` returns in every process whose locale is not `n`. -/
theorem history_changes_locale_query {p : LocaleProto} {n : Nat} (h : symFinal p.ops = .lit n)
    (s : State) (hl : s.sh.locale ≠ n) (o o' other : Nat) :
    (step glibcExt (runHist glibcExt s [⟨o, danceProg other p.ops []⟩]) ⟨o', localeQuery⟩).2
      ≠ (step glibcExt s ⟨o', localeQuery⟩).2 := by
  simp only [step, runHist, List.foldl_cons, List.foldl_nil, localeQuery_run, danceProg_run]
  have := not_restoring_lit h other s.sh.locale
  simp only [execLocale] at this
  rw [this]
  exact fun e => hl e.symm

/-! ## non-vacuity: concrete instances of the hypotheses -/

/-- a model of `AtomicWeight(Z, &err)`: read the table cell; on 0 allocate and fill the caller's error object -/
def exAtomicWeight (o : Nat) : Prog :=
  .read (.table (nm! "AtomicWeight_arr")) fun v =>
    if v = 0 then .ext (nm! "malloc") 16 fun p => .write (.owned o 0) p (.ret 0) else .ret v

example (o : Nat) : (exAtomicWeight o).Conf o (fun _ => False) (fun f => f ∈ allowPure) := by
  refine ⟨Or.inl rfl, fun v => ?_⟩
  by_cases hv : v = 0
  · simp only [hv, if_true]
    exact ⟨by decide, fun _ => ⟨Or.inr ⟨0, rfl⟩, trivial⟩⟩
  · simp only [hv, if_false]; trivial

/-- a query that caches its last result in a `static` does NOT conform to a read-only footprint -/
def exCaching : Prog := .read (.table 1) fun v => .write (.table 2) v (.ret v)

example (o : Nat) (X : Nat → Prop) : ¬ exCaching.Conf o (fun _ => False) X := by
  intro h
  have := (h.2 0).1
  rcases this with ⟨_, f⟩ | ⟨j, hj⟩
  · exact f
  · cases hj

/-- `glibcExt` satisfies the hypothesis of `purity_xraylib` … -/
example : glibcExt.Respects (fun _ => False) (fun f => f ∈ allowPure) :=
  glibcExt_respects_pure (fun f hf => by
    intro e; subst e; revert hf; decide)

/-- … and `purity_xraylib` on a concrete history: two failing and one succeeding lookup, then a query -/
example (s : State) :
    (step glibcExt (runHist glibcExt s [⟨1, exAtomicWeight 1⟩, ⟨2, exAtomicWeight 2⟩]) ⟨3, exAtomicWeight 3⟩).2
      = (step glibcExt s ⟨3, exAtomicWeight 3⟩).2 := by
  have hE : glibcExt.Respects (fun _ => False) (fun f => f ∈ allowPure) :=
    glibcExt_respects_pure (fun f hf => by intro e; subst e; revert hf; decide)
  have hc : ∀ o, (exAtomicWeight o).Conf o (fun _ => False) (fun f => f ∈ allowPure) := by
    intro o
    refine ⟨Or.inl rfl, fun v => ?_⟩
    by_cases hv : v = 0
    · simp only [hv, if_true]; exact ⟨by decide, fun _ => ⟨Or.inr ⟨0, rfl⟩, trivial⟩⟩
    · simp only [hv, if_false]; trivial
  refine (purity glibcExt _ hE s _ ⟨3, exAtomicWeight 3⟩ ?_ (hc 3) ?_).1
  · intro c hc'
    simp only [List.mem_cons, List.not_mem_nil, or_false] at hc'
    rcases hc' with rfl | rfl <;> exact hc _
  · intro c hc'
    simp only [List.mem_cons, List.not_mem_nil, or_false] at hc'
    rcases hc' with rfl | rfl <;> decide

/-- a model of a `_CP` call: save the numeric locale, switch to "C", read a table, put the saved locale back, store the
result in the caller's memory — it follows the protocol extracted from today's CompoundParser -/
def exCP (o : Nat) : Prog :=
  .ext SETLOCALE 0 fun v0 => .ext SETLOCALE (nm! "C" + 1) fun _ =>
    .read (.table (nm! "AtomicWeight_arr")) fun w => .ext SETLOCALE (v0 + 1) fun _ => .write (.owned o 0) w (.ret w)

def exProto : List LocaleOp := [.query 1, .setLit 1 (nm! "C"), .setRet 1 0]

theorem exCP_follows (o other : Nat) : (exCP o).Follows other [exProto] [] [] := by
  refine ⟨fun _ => ⟨.query 1, [.setLit 1 (nm! "C"), .setRet 1 0], by simp [exProto], rfl, fun v0 => ?_⟩, fun h => absurd rfl h⟩
  refine ⟨fun _ => ⟨rfl, fun v1 => ?_⟩, fun h => absurd rfl h⟩
  intro w
  refine ⟨fun _ => ⟨by simp [LocaleOp.arg, nthD], fun _ => rfl⟩, fun h => absurd rfl h⟩

theorem exCP_conf (o : Nat) : (exCP o).Conf o (fun _ => False) (fun f => f ∈ allowPure ∨ f ∈ processGlobal) := by
  refine ⟨Or.inr (by simp [processGlobal]), fun _ => ⟨Or.inr (by simp [processGlobal]), fun _ => ⟨Or.inl rfl, fun _ =>
    ⟨Or.inr (by simp [processGlobal]), fun _ => ⟨Or.inr ⟨0, rfl⟩, trivial⟩⟩⟩⟩⟩

/-- `purity_locale_disciplined` on a concrete history in a process with an ARBITRARY locale: two `_CP`-like calls, then a third -/
example (s : State) :
    (step glibcExt (runHist glibcExt s [⟨1, exCP 1⟩, ⟨2, exCP 2⟩]) ⟨3, exCP 3⟩).2 = (step glibcExt s ⟨3, exCP 3⟩).2 := by
  refine (purity_locale_disciplined glibcExt _ 0 [exProto] (fun _ _ => rfl)
    (glibcExt_respects_pure (fun f hf => hf.2)) ?_ s _ ⟨3, exCP 3⟩ ?_ (exCP_conf 3) ?_).1
  · intro P hP l
    simp only [List.mem_cons, List.not_mem_nil, or_false] at hP
    subst hP
    simp [exProto, execLocale, execOps, LocaleOp.exec, nthD]
  · intro c hc'
    simp only [List.mem_cons, List.not_mem_nil, or_false] at hc'
    rcases hc' with rfl | rfl <;> exact ⟨exCP_conf _, exCP_follows _ _⟩
  · intro c hc'
    simp only [List.mem_cons, List.not_mem_nil, or_false] at hc'
    rcases hc' with rfl | rfl <;> decide

/-- the discipline is not vacuous: the protocol of the tree as found (`[setLit "C", setRet 0]`: the RETURN value of the
switching call was saved) violates `hPs` — it ends in "C" whatever it found -/
example : ¬ ∀ l, execLocale 0 [.setLit 1 (nm! "C"), .setRet 1 0] l = l := by
  intro h
  have := h 0
  simp [execLocale, execOps, LocaleOp.exec, nthD] at this

/-- a model of `Crystal_AddCrystal(c, arr, &err)` on the caller's own array: read the argument, look the name up in the
array, store the new entry and the new count in the array — all in the caller's memory -/
def exAddUser (o : Nat) : Prog :=
  .read (.owned o 10) fun c => .read (.owned o 20) fun n => .ext (nm! "malloc") 48 fun p =>
    .write (.owned o (21 + n)) (c + p) (.write (.owned o 20) (n + 1) (.ext (nm! "qsort") n fun _ => .ret 1))

example (o : Nat) : (exAddUser o).Conf o (fun _ => False) (fun f => f ∈ allowPure ∨ f ∈ fileFns) := by
  refine ⟨Or.inr ⟨_, rfl⟩, fun _ => ⟨Or.inr ⟨_, rfl⟩, fun _ => ⟨Or.inl (by decide), fun _ =>
    ⟨Or.inr ⟨_, rfl⟩, Or.inr ⟨_, rfl⟩, Or.inl (by decide), fun _ => trivial⟩⟩⟩⟩

/-- the same insertion into the BUILT-IN array does not conform to the read-only footprint: that is the exemption -/
example (o : Nat) (X : Nat → Prop) : ¬ (Prog.write .crystals 1 (.ret 1)).Conf o (fun _ => False) X := by
  intro h
  rcases h.1 with ⟨_, f⟩ | ⟨j, hj⟩
  · exact f
  · cases hj

/-- the mutator hypothesis is not vacuous either: a crystal insertion does change `crystals` -/
example (s : State) : (runHist glibcExt s [⟨0, .write .crystals (s.sh.crystals + 1) (.ret 1)⟩]).sh.crystals ≠ s.sh.crystals := by
  simp [runHist, step, Prog.run, State.set]

end XrlSched.C16
