-- Root of the `XrlSched` library (C16 purity, C17 schedules).  XrlSched/Gen/ is generated on every run
-- by tools/footprint.py (see setup.sh); Hand/ is the hand-written machinery, Props/ the property theorems.
import XrlSched.Props.C16
import XrlSched.Props.C17
