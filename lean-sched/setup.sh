#!/bin/sh
# Run once after a fresh restore (offline): regenerate the footprint table from /repo (VERIF_REPO) as found and build
# the whole lake project (core-only Lean, no Mathlib: a cold build takes well under a minute).  Nothing of /repo is
# compiled permanently; the checks rebuild their C artefacts in a scratch directory on every run.
set -e
cd "$(dirname "$0")/.."
python3 - <<'PY'
import sys, os
sys.path.insert(0, os.path.join(os.getcwd(), 'tools'))
import schedlib as sl
ctx = sl.Ctx('SETUP', 'quick', 0)
try:
    sl.cbuild.build_prdata(ctx.sc, sl.REPO)          # config.h for the AST flags
    meta, lean_tmp, problems = sl.extract_footprint(ctx)
    for p in problems: print('PROBLEM', p)
    with sl.Lock():
        sl.install_gen(lean_tmp)
        ok, out = sl.lake_build(ctx, ['XrlSched'])
    print('lake build XrlSched: ' + ('ok' if ok else out[-3000:]))
    sys.exit(0 if ok else 1)
finally:
    ctx.close()
PY
